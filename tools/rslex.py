"""Minimal Rust lexer + item locator used by the Verus extractor (vx.py) and the Kani overlay (kx.py).

Only what is needed to find items *by path* in a rustfmt-formatted source file and to copy their text
verbatim: strings, raw strings, chars vs. lifetimes, nested block comments, bracket matching.
It never re-prints code from tokens: all outputs are slices of the original text.
"""
import re

class LexError(Exception):
    pass

# token = (kind, start, end)   kinds: ws, lcomment, bcomment, str, char, life, id, num, p
def lex(text):
    toks = []
    i, n = 0, len(text)
    while i < n:
        c = text[i]
        if c.isspace():
            j = i + 1
            while j < n and text[j].isspace():
                j += 1
            toks.append(("ws", i, j)); i = j; continue
        if text.startswith("//", i):
            j = text.find("\n", i)
            if j < 0: j = n
            toks.append(("lcomment", i, j)); i = j; continue
        if text.startswith("/*", i):
            depth, j = 1, i + 2
            while j < n and depth:
                if text.startswith("/*", j): depth += 1; j += 2
                elif text.startswith("*/", j): depth -= 1; j += 2
                else: j += 1
            if depth: raise LexError("unterminated block comment at %d" % i)
            toks.append(("bcomment", i, j)); i = j; continue
        # raw strings / byte strings / c strings
        m = re.compile(r'(?:br|rb|r|cr)(#*)"').match(text, i)
        if m and (i == 0 or not (text[i-1].isalnum() or text[i-1] == '_')):
            close = '"' + m.group(1)
            j = text.find(close, m.end())
            if j < 0: raise LexError("unterminated raw string at %d" % i)
            j += len(close)
            toks.append(("str", i, j)); i = j; continue
        if c == '"' or (c in "bc" and i + 1 < n and text[i+1] == '"' and (i == 0 or not (text[i-1].isalnum() or text[i-1] == '_'))):
            j = i + (1 if c == '"' else 2)
            while j < n and text[j] != '"':
                j += 2 if text[j] == "\\" else 1
            if j >= n: raise LexError("unterminated string at %d" % i)
            toks.append(("str", i, j + 1)); i = j + 1; continue
        if c == "'" or (c == "b" and i + 1 < n and text[i+1] == "'"):
            k = i + (1 if c == "'" else 2)
            if k < n and text[k] == "\\":
                j = k + 2
                while j < n and text[j] != "'": j += 1
                toks.append(("char", i, j + 1)); i = j + 1; continue
            if k + 1 < n and text[k+1] == "'" and text[k] != "'":
                toks.append(("char", i, k + 2)); i = k + 2; continue
            if c == "'":
                j = k
                while j < n and (text[j].isalnum() or text[j] == "_"): j += 1
                toks.append(("life", i, j)); i = j; continue
        if c.isalpha() or c == "_":
            j = i + 1
            if text.startswith("r#", i) and i + 2 < n and (text[i+2].isalpha() or text[i+2] == "_"):
                j = i + 3
            while j < n and (text[j].isalnum() or text[j] == "_"): j += 1
            toks.append(("id", i, j)); i = j; continue
        if c.isdigit():
            j = i + 1
            while j < n and (text[j].isalnum() or text[j] == "_"): j += 1
            if j + 1 < n and text[j] == "." and text[j+1].isdigit():
                j += 1
                while j < n and (text[j].isalnum() or text[j] == "_"): j += 1
            elif j < n and text[j] == "." and not text.startswith("..", j) and not (j + 1 < n and (text[j+1].isalpha() or text[j+1] == "_")):
                j += 1
            toks.append(("num", i, j)); i = j; continue
        toks.append(("p", i, i + 1)); i += 1
    return toks

OPEN = {"(": ")", "[": "]", "{": "}"}
CLOSE = {")", "]", "}"}

def is_trivia(t):
    return t[0] in ("ws", "lcomment", "bcomment")

class Src:
    def __init__(self, text, path="<mem>"):
        self.text = text
        self.path = path
        self.toks = lex(text)
        # line starts
        self.line_starts = [0]
        for m in re.finditer("\n", text):
            self.line_starts.append(m.end())
        self._match = {}
        stack = []
        for idx, t in enumerate(self.toks):
            if t[0] == "p":
                ch = text[t[1]]
                if ch in OPEN:
                    stack.append(idx)
                elif ch in CLOSE:
                    if not stack:
                        raise LexError("%s: unbalanced closer at %d" % (path, t[1]))
                    o = stack.pop()
                    if OPEN[text[self.toks[o][1]]] != ch:
                        raise LexError("%s: mismatched bracket at line %d" % (path, self.line_of(t[1])))
                    self._match[o] = idx
                    self._match[idx] = o
        if stack:
            raise LexError("%s: unclosed bracket at line %d" % (path, self.line_of(self.toks[stack[-1]][1])))

    def s(self, idx):
        t = self.toks[idx]
        return self.text[t[1]:t[2]]

    def line_of(self, pos):
        import bisect
        return bisect.bisect_right(self.line_starts, pos)

    def match(self, idx):
        return self._match[idx]

    def next_sig(self, idx, hi=None):
        """index of next non-trivia token at or after idx"""
        hi = len(self.toks) if hi is None else hi
        while idx < hi and is_trivia(self.toks[idx]):
            idx += 1
        return idx if idx < hi else None


class Item:
    __slots__ = ("kind", "name", "header", "tstart", "tkw", "tbody_open", "tend", "src")
    # tstart: first token incl. attributes/doc comments; tkw: keyword token; tbody_open: '{' token index or None; tend: last token (inclusive)
    def __repr__(self):
        return "Item(%s %r)" % (self.kind, self.name)
    def text(self):
        return self.src.text[self.src.toks[self.tstart][1]:self.src.toks[self.tend][2]]
    def start_pos(self): return self.src.toks[self.tstart][1]
    def kw_pos(self): return self.src.toks[self.tkw][1]
    def end_pos(self): return self.src.toks[self.tend][2]

ITEM_KW = {"fn", "struct", "enum", "union", "trait", "impl", "mod", "use", "const", "static", "type", "macro_rules", "extern"}
MODIFIERS = {"pub", "async", "unsafe", "default", "const", "extern"}

def parse_items(src, lo, hi):
    """Parse the items between token indices [lo, hi) (contents of a file / mod / impl / trait)."""
    items = []
    i = lo
    toks = src.toks
    while True:
        i = src.next_sig(i, hi) if i < hi else None
        # doc comments are trivia for next_sig; find real start including preceding doc comments/attrs
        if i is None:
            break
        # compute start including directly preceding doc/line comments
        start = i
        j = i - 1
        while j >= lo and is_trivia(toks[j]):
            if toks[j][0] in ("lcomment", "bcomment") and src.s(j).startswith(("///", "/**", "//!")):
                start = j
            j -= 1
        # attributes
        k = i
        while src.s(k) == "#":
            k2 = src.next_sig(k + 1, hi)
            if src.s(k2) == "!":
                k2 = src.next_sig(k2 + 1, hi)
            if src.s(k2) != "[":
                break
            k = src.next_sig(src.match(k2) + 1, hi)
            if k is None:
                return items
        # visibility & modifiers
        kw = k
        while True:
            w = src.s(kw)
            if w == "pub":
                nx = src.next_sig(kw + 1, hi)
                if src.s(nx) == "(":
                    nx = src.next_sig(src.match(nx) + 1, hi)
                kw = nx; continue
            if w in ("async", "unsafe", "default"):
                kw = src.next_sig(kw + 1, hi); continue
            if w == "const":
                nx = src.next_sig(kw + 1, hi)
                if src.s(nx) in ("fn", "unsafe", "async", "extern"):
                    kw = nx; continue
                break
            if w == "extern":
                nx = src.next_sig(kw + 1, hi)
                if toks[nx][0] == "str":
                    nx2 = src.next_sig(nx + 1, hi)
                    if src.s(nx2) == "fn":
                        kw = nx2; continue
                break
            break
        it = Item()
        it.src = src
        it.tstart = start
        it.tkw = kw
        w = src.s(kw)
        it.kind = w if w in ITEM_KW else "macro"
        semi_only = it.kind in ("use", "const", "static", "type")
        # find end
        e = kw
        body_open = None
        while e < hi:
            t = toks[e]
            if t[0] == "p":
                ch = src.text[t[1]]
                if ch in OPEN:
                    if ch == "{" and body_open is None and not semi_only:
                        body_open = e
                        e = src.match(e)
                        # macro invocation `foo! { }` or items with a brace body end here
                        break
                    e = src.match(e)
                    # `foo!( ... );` -> continue to ';'
                elif ch == ";":
                    break
            e += 1
        if e >= hi:
            e = hi - 1
        it.tend = e
        it.tbody_open = body_open
        # name
        name = None
        if it.kind in ("fn", "struct", "enum", "union", "trait", "mod", "const", "static", "type"):
            nx = src.next_sig(kw + 1, hi)
            if nx is not None and src.s(nx) == "mut":
                nx = src.next_sig(nx + 1, hi)
            name = src.s(nx) if nx is not None else None
        elif it.kind == "macro_rules":
            nx = src.next_sig(kw + 1, hi); nx = src.next_sig(nx + 1, hi)
            name = src.s(nx)
        it.name = name
        hdr_end = toks[body_open][1] if body_open is not None else toks[e][2]
        it.header = " ".join(src.text[toks[kw][1]:hdr_end].split())
        items.append(it)
        i = e + 1
    return items

def norm(s):
    return "".join(s.split())

class LocateError(Exception):
    pass

def locate(src, path_segments):
    """path_segments e.g. ['impl<T> DocSet for Exclude', 'fn advance'] or ['mod tests', 'fn x'] or ['fn foo'].
    impl/trait segments match when the whitespace-free header starts with the whitespace-free segment text.
    An optional '#k' suffix picks the k-th match (1-based) when several items match."""
    lo, hi = 0, len(src.toks)
    item = None
    for seg in path_segments:
        seg = seg.strip()
        pick = None
        m = re.match(r"^(.*?)\s*#(\d+)$", seg)
        if m:
            seg, pick = m.group(1), int(m.group(2))
        items = parse_items(src, lo, hi)
        kw = "impl" if re.match(r"^impl\b", seg) else (seg.split()[0] if seg.split() else "")
        cands = []
        for it in items:
            if kw in ("impl",):
                if it.kind == "impl" and norm(it.header).startswith(norm(seg)):
                    cands.append(it)
            elif kw in ("fn", "struct", "enum", "union", "trait", "mod", "const", "static", "type", "macro_rules"):
                if it.kind == kw and it.name == seg.split()[1]:
                    cands.append(it)
            else:
                raise LocateError("bad locator segment %r" % seg)
        if not cands:
            raise LocateError("%s: item not found: %r" % (src.path, seg))
        if pick is not None:
            if pick > len(cands):
                raise LocateError("%s: only %d items match %r" % (src.path, len(cands), seg))
            item = cands[pick - 1]
        else:
            if len(cands) > 1:
                raise LocateError("%s: %d items match %r (use #k)" % (src.path, len(cands), seg))
            item = cands[0]
        if item.tbody_open is not None:
            lo, hi = item.tbody_open + 1, src.match(item.tbody_open)
    return item
