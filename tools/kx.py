#!/usr/bin/env python3
"""kx.py - Kani route: copy the current /repo working tree to a scratch directory, apply purely additive
overlays (harness modules appended to the file that owns the private functions, contract attributes inserted
above real functions), run `cargo kani` on the real crate, parse per-harness verdicts, remove the copy.

Unit description: specs/kani/<unit>.kspec

  //@unit NAME            //@serves C07 C09         //@dir common         (directory of the crate, relative to the repo root; `.` = tantivy)
  //@kani-flags -Z stubbing ...                      (extra flags for this unit)
  //@cbmc-args --unwindset LOOP:N,...                (passed to CBMC after `--cbmc-args`, last on the command line; e.g. per-loop unwinding bounds)
  //@harness NAME level=complete|contract|bounded(...) [timeout=SECONDS] [expect=pass|fail] [covers=fn1,fn2] [finding=F2] [obligation="text"]
  //@append FILE                                     text up to //@endappend is appended to FILE of the scratch copy
  //@contract FILE :: SEG :: fn NAME                 text up to //@endcontract is inserted on the lines above that fn (after its doc comments/attrs)
  //@stubfmt                                         (documented convenience: adds nothing; stubs are written in the harness attributes)

Verdicts per harness: pass | fail (with counterexample values if Kani printed them) | undecided (timeout, OOM, compile error, ICE).
A harness with expect=fail documents a *known finding*: it is expected to be refuted (see check.py).
"""
import hashlib, json, os, re, shutil, subprocess, sys, time, fcntl
sys.path.insert(0, os.path.dirname(os.path.abspath(__file__)))
from rslex import Src, locate, LocateError, LexError

VERIF = os.path.dirname(os.path.dirname(os.path.abspath(__file__)))
SPECDIR = os.path.join(VERIF, "specs", "kani")
CACHE = os.path.join(VERIF, ".cache")
SCRATCH_ROOT = os.environ.get("VERIF_SCRATCH", "/tmp/verif-kx")

class Undecided(Exception):
    pass

def parse_kspec(path):
    lines = open(path, encoding="utf-8").read().split("\n")
    u = {"unit": os.path.splitext(os.path.basename(path))[0], "serves": [], "dir": ".", "flags": [], "harnesses": [],
         "appends": [], "contracts": [], "notes": [], "path": path, "trusted": []}
    i = 0
    while i < len(lines):
        st = lines[i].strip()
        if st.startswith("//@"):
            parts = st[3:].split(None, 1)
            d, arg = parts[0], (parts[1] if len(parts) > 1 else "")
            if d == "unit": u["unit"] = arg.strip()
            elif d == "serves": u["serves"] = arg.split()
            elif d == "dir": u["dir"] = arg.strip()
            elif d == "kani-flags": u["flags"] += arg.split()
            elif d == "cbmc-args": u.setdefault("cbmc_args", []).extend(arg.split())   # passed after `--cbmc-args` (must be last on the command line)
            elif d == "note": u["notes"].append(arg.strip())
            elif d == "trusted": u["trusted"].append(arg.strip())
            elif d == "harness":
                m = re.match(r"^(\w+)\s*(.*)$", arg)
                h = {"name": m.group(1), "level": "complete", "timeout": 600, "expect": "pass", "covers": [], "unit": u["unit"]}
                for kv in re.findall(r'(\w+)=("(?:[^"]*)"|\S+)', m.group(2)):
                    k, v = kv[0], kv[1].strip('"')
                    if k == "timeout": h[k] = int(v)
                    elif k == "covers": h[k] = v.split(",")
                    else: h[k] = v
                u["harnesses"].append(h)
            elif d in ("append", "contract"):
                end = "//@end" + d
                block = []
                start = i + 1
                i += 1
                while i < len(lines) and lines[i].strip() != end:
                    block.append(lines[i]); i += 1
                if i >= len(lines):
                    raise Undecided("kspec-syntax %s: missing %s" % (path, end))
                (u["appends"] if d == "append" else u["contracts"]).append({"target": arg.strip(), "text": "\n".join(block), "line": start})
            else:
                raise Undecided("kspec-syntax %s:%d unknown directive %s" % (path, i + 1, d))
        i += 1
    return u

def check_names(units):
    names = [h["name"] for u in units for h in u["harnesses"]]
    for a in names:
        for b in names:
            if a != b and a in b:
                raise Undecided("harness name %s is a substring of %s (kani --harness filters by substring)" % (a, b))
    if len(set(names)) != len(names):
        raise Undecided("duplicate harness names")

def copy_repo(repo, dst):
    if os.path.exists(dst):
        shutil.rmtree(dst)
    os.makedirs(dst)
    subprocess.run(["rsync", "-a", "--exclude", "/target", "--exclude", "/.git", repo.rstrip("/") + "/", dst + "/"], check=True)

def apply_overlays(units, root):
    """apply appends and contracts of all units to the scratch tree; returns log"""
    log = []
    by_file_contracts = {}
    for u in units:
        for c in u["contracts"]:
            parts = [p.strip() for p in c["target"].split(" :: ")]
            by_file_contracts.setdefault(parts[0], []).append((parts[1:], c, u))
    for f, lst in by_file_contracts.items():
        p = os.path.join(root, f)
        if not os.path.exists(p):
            raise Undecided("lost-file %s" % f)
        text = open(p, encoding="utf-8").read()
        src = Src(text, f)
        ins = []
        for segs, c, u in lst:
            try:
                it = locate(src, segs)
            except LocateError as e:
                raise Undecided("lost-item %s (%s)" % (c["target"], e))
            # insert before the first token after attributes (keeps doc comments above)
            pos = src.toks[it.tkw][1]
            # go back to start of line of visibility/modifiers: find the start of the line holding the first non-attr token
            k = src.next_sig(it.tstart)
            while src.s(k) == "#":
                k2 = src.next_sig(k + 1)
                k = src.next_sig(src.match(k2) + 1)
            pos = src.toks[k][1]
            line_start = text.rfind("\n", 0, pos) + 1
            ins.append((line_start, c["text"] + "\n"))
            log.append("contract attributes inserted above %s (unit %s)" % (c["target"], u["unit"]))
        for pos, t in sorted(ins, reverse=True):
            text = text[:pos] + t + text[pos:]
        open(p, "w", encoding="utf-8").write(text)
    for u in units:
        for a in u["appends"]:
            p = os.path.join(root, a["target"])
            if not os.path.exists(p):
                raise Undecided("lost-file %s" % a["target"])
            with open(p, "a", encoding="utf-8") as fh:
                fh.write("\n// ---- appended by /verif/tools/kx.py (unit %s) ----\n" % u["unit"])
                txt = a["text"]
                if "//@support" in txt:
                    sup = open(os.path.join(SPECDIR, "support.inc"), encoding="utf-8").read()
                    txt = re.sub(r"^[ \t]*//@support[ \t]*$", lambda m: sup, txt, flags=re.M)
                fh.write(txt + "\n")
            log.append("harness module appended to %s (unit %s)" % (a["target"], u["unit"]))
    return log

RESULT_RX = re.compile(r"VERIFICATION:- (SUCCESSFUL|FAILED)")

def parse_kani_output(out, harness_names):
    """Split the output by 'Checking harness X...' sections."""
    res = {}
    # sections: sequential runs print "Checking harness X..." followed by the result; parallel runs (-j) prefix
    # every block with "Thread N: " and interleave them
    secs = []   # (name, text)
    if re.search(r"^Thread \d+: ", out, re.M):
        cur = {}
        buf = {}
        order = []
        th = None
        for line in out.split("\n"):
            m = re.match(r"^Thread (\d+): ?(.*)$", line)
            if m:
                th = m.group(1)
                rest = m.group(2)
                mc = re.match(r"Checking harness ([\w:]+)\.\.\.", rest)
                if mc:
                    cur[th] = mc.group(1)
                    order.append(mc.group(1))
                    buf[mc.group(1)] = []
                elif th in cur:
                    buf[cur[th]].append(rest)
                continue
            if line.startswith("Manual Harness Summary") or line.startswith("Complete - "):
                th = None
            if th is not None and th in cur:
                buf[cur[th]].append(line)
        secs = [(n, "\n".join(buf[n])) for n in order]
    else:
        idxs = [(m.start(), m.group(1)) for m in re.finditer(r"Checking harness ([\w:]+)\.\.\.", out)]
        for n, (pos, name) in enumerate(idxs):
            end = idxs[n + 1][0] if n + 1 < len(idxs) else len(out)
            secs.append((name, out[pos:end]))
    for name, sec in secs:
        short = name.split("::")[-1]
        m = RESULT_RX.search(sec)
        r = {"raw_name": name}
        if m:
            r["status"] = "pass" if m.group(1) == "SUCCESSFUL" else "fail"
        else:
            r["status"] = "undecided"
        # Kani prints "VERIFICATION:- FAILED" + "CBMC timed out." / "CBMC failed" without any check result when the
        # solver hit --harness-timeout or died: that is undecided, never a violation
        if r["status"] == "fail" and not re.search(r"\*\* \d+ of \d+ failed", sec) and \
                ("CBMC timed out" in sec or "CBMC failed" in sec):
            r["status"] = "undecided"
            r["reason"] = "timeout" if "CBMC timed out" in sec else "CBMC failed without a verdict (OOM/crash)"
        mm = re.search(r"\*\* (\d+) of (\d+) failed", sec)
        if mm:
            r["checks_failed"], r["checks_total"] = int(mm.group(1)), int(mm.group(2))
        mt = re.search(r"Verification Time: ([\d.]+)s", sec)
        if mt:
            r["solver_s"] = float(mt.group(1))
        failed = []
        for fm in re.finditer(r"Failed Checks: (.*)\n\s*File: \"([^\"]+)\", line (\d+), in (\S+)", sec):
            failed.append({"desc": fm.group(1).strip(), "file": fm.group(2), "line": int(fm.group(3)), "fn": fm.group(4)})
        if not failed:
            for fm in re.finditer(r"Failed Checks: (.*)", sec):
                failed.append({"desc": fm.group(1).strip()})
        r["failed_checks"] = failed
        # cover results
        covs = re.findall(r"Status: (SATISFIED|UNSATISFIABLE|UNREACHABLE)\s*\n\s*Description: \"([^\"]*)\"", sec)
        cm = re.search(r"\*\* (\d+) of (\d+) cover properties satisfied", sec)
        if cm:
            r["covers_satisfied"], r["covers_total"] = int(cm.group(1)), int(cm.group(2))
        # concrete playback values
        cv = re.search(r"Concrete playback unit test for `[^`]*`:\s*```\s*(.*?)```", sec, re.S)
        if cv:
            r["playback_test"] = cv.group(1)
            vals = re.findall(r"//\s*(.+?)\n\s*vec!\[([^\]]*)\]", cv.group(1))
            r["concrete_vals"] = [{"value": a.strip(), "bytes": [int(x) for x in b.replace(" ", "").split(",") if x]} for a, b in vals]
        if "CBMC timed out" in sec and not failed:
            # kani prints "VERIFICATION:- FAILED" + "CBMC timed out" for a harness that hit --harness-timeout: undecided, not refuted
            r["status"] = "undecided"; r["reason"] = "timeout"
        elif r["status"] == "fail" and not failed and r.get("checks_failed", 0) == 0:
            # "FAILED" without any failed check: CBMC / SMT solver error or killed process -- not a refutation
            r["status"] = "undecided"; r["reason"] = "cbmc/solver error: FAILED with no failed check"
        if "unwinding assertion" in sec and r["status"] == "fail":
            if all("unwinding assertion" in f.get("desc", "") for f in failed) and failed:
                r["status"] = "undecided"; r["reason"] = "unwinding assertion failed (bound too small)"
        res[short] = r
    return res

def run_unit_group(units, repo="/repo", jobs=None, keep=False, tier="quick", only=None, tag=None, replay=False):
    """Run all harnesses of `units` (all must share the same `dir`).  Returns {harness: result}, log."""
    t0 = time.time()
    tag = tag or ("g%d" % os.getpid())
    root = os.path.join(SCRATCH_ROOT, tag, "repo")
    results, log = {}, []
    harnesses = []
    for u in units:
        for h in u["harnesses"]:
            if only and h["name"] not in only:
                continue
            if h.get("tier") == "thorough" and tier != "thorough":
                continue
            harnesses.append(h)
    if not harnesses:
        return {}, []
    try:
        check_names(units)
        copy_repo(repo, root)
        log += apply_overlays(units, root)
    except (Undecided, LexError) as e:
        for h in harnesses:
            results[h["name"]] = {"status": "undecided", "reason": str(e)}
        shutil.rmtree(os.path.join(SCRATCH_ROOT, tag), ignore_errors=True)
        return results, log
    d = units[0]["dir"]
    cwd = os.path.join(root, d)
    env = dict(os.environ)
    env["CARGO_NET_OFFLINE"] = "true"
    target = os.environ.get("VERIF_KANI_TARGET") or os.path.join(CACHE, "kani-target")
    os.makedirs(target, exist_ok=True)
    env["CARGO_TARGET_DIR"] = target
    flags = []
    for u in units:
        for f in u["flags"]:
            flags.append(f)
    # normalise flag pairs ("-Z x")
    fl, seen = [], set()
    i = 0
    while i < len(flags):
        if flags[i] == "-Z" and i + 1 < len(flags):
            key = ("-Z", flags[i + 1]); i += 2
        else:
            key = (flags[i],); i += 1
        if key not in seen:
            seen.add(key); fl += list(key)
    jobs = jobs or min(16, max(1, len(harnesses)))
    maxto = max(h["timeout"] for h in harnesses)
    base = ["cargo", "kani", "-Z", "unstable-options", "-Z", "function-contracts", "-Z", "stubbing",
            "--output-format=terse", "--harness-timeout", "%ds" % maxto] + fl
    cmd = base + ["-j", str(jobs)]
    for h in harnesses:
        cmd += ["--harness", h["name"]]
    cbmc_tail = [a for u in units for a in u.get("cbmc_args", [])]
    if cbmc_tail:
        cmd += ["--cbmc-args"] + cbmc_tail
    log.append("cmd (cwd=<scratch>/%s): %s" % (d, " ".join(cmd)[:2000]))
    def run(cmd, to):
        try:
            p = subprocess.run(cmd, cwd=cwd, env=env, stdout=subprocess.PIPE, stderr=subprocess.STDOUT, text=True, timeout=to)
            return p.stdout, p.returncode
        except subprocess.TimeoutExpired as e:
            o = e.stdout or ""
            return (o if isinstance(o, str) else o.decode("utf-8", "replace")), -9
    # serialise cargo-kani builds sharing the target dir
    lock = open(os.path.join(target, ".verif-kani.lock"), "w")
    fcntl.flock(lock, fcntl.LOCK_EX)
    try:
        out, rc = run(cmd, maxto * 2 + 1800)
        parsed0 = parse_kani_output(out, [h["name"] for h in harnesses])
        # counterexample values: Kani only prints them single-threaded -> re-run the refuted harnesses
        refuted = [h for h in harnesses if parsed0.get(h["name"], {}).get("status") == "fail" and h.get("playback", "yes") != "no"]
        if refuted:
            cmd2 = base + ["-Z", "concrete-playback", "--concrete-playback=print"]
            for h in refuted:
                cmd2 += ["--harness", h["name"]]
            if cbmc_tail:
                cmd2 += ["--cbmc-args"] + cbmc_tail
            out2, _ = run(cmd2, maxto * len(refuted) + 1800)
            p2 = parse_kani_output(out2, [h["name"] for h in refuted])
            out += "\n==== playback re-run ====\n" + out2
        else:
            p2 = {}
    finally:
        fcntl.flock(lock, fcntl.LOCK_UN); lock.close()
    logdir = os.path.join(CACHE, "logs")
    os.makedirs(logdir, exist_ok=True)
    logpath = os.path.join(logdir, "kani-%s.log" % tag)
    open(logpath, "w").write(out)
    parsed = parsed0
    for k, v in p2.items():
        if k in parsed and v.get("concrete_vals") is not None:
            parsed[k]["concrete_vals"] = v["concrete_vals"]; parsed[k]["playback_test"] = v.get("playback_test")
    compile_failed = ("error: could not compile" in out) or ("error[E" in out) or ("internal compiler error" in out and not parsed)
    for h in harnesses:
        r = parsed.get(h["name"])
        if r is None:
            reason = "no result in kani output"
            if compile_failed:
                m = re.search(r"(error(\[E\d+\])?: .*(?:\n.*){0,6})", out)
                reason = "kani compile error: " + (m.group(1)[:600] if m else "?")
            elif "timed out" in out or rc == -9:
                reason = "timeout"
            r = {"status": "undecided", "reason": reason}
        elif r["status"] == "undecided" and "reason" not in r:
            r["reason"] = "harness produced no verdict (timeout/OOM/crash)"
        r["level"] = h["level"]; r["unit"] = h["unit"]
        results[h["name"]] = r
    # timeouts reported by kani: "Thread N: Harness X timed out"
    for m in re.finditer(r"[Hh]arness ([\w:]+) timed out", out):
        n = m.group(1).split("::")[-1]
        if n in results:
            results[n]["status"] = "undecided"; results[n]["reason"] = "timeout"
    log.append("kani log: %s (%d bytes), wall %.1fs" % (logpath, len(out), time.time() - t0))
    if replay:
        for h in harnesses:
            r = results[h["name"]]
            if r["status"] == "fail" and h["expect"] == "pass" and r.get("concrete_vals"):
                r["native_replay"] = native_replay(cwd, h["name"], r["concrete_vals"])
    if not keep:
        shutil.rmtree(os.path.join(SCRATCH_ROOT, tag), ignore_errors=True)
    return results, log

def native_replay(cwd, harness, concrete_vals, timeout=3000):
    """Run the same harness body natively (cfg verif_replay) on Kani's counterexample, against the real code of the scratch copy."""
    vals = ";".join(",".join(str(b) for b in v["bytes"]) for v in concrete_vals)
    env = dict(os.environ)
    env["CARGO_NET_OFFLINE"] = "true"
    env["CARGO_TARGET_DIR"] = os.environ.get("VERIF_REPLAY_TARGET") or os.path.join(CACHE, "replay-target")
    env["RUSTFLAGS"] = (env.get("RUSTFLAGS", "") + " --cfg verif_replay -A unexpected_cfgs -A warnings").strip()
    env["VERIF_REPLAY_VALS"] = vals
    cmd = ["cargo", "test", "--offline", "--lib", "--", "%s::replay" % harness, "--nocapture", "--test-threads", "1"]
    t0 = time.time()
    try:
        p = subprocess.run(cmd, cwd=cwd, env=env, stdout=subprocess.PIPE, stderr=subprocess.STDOUT, text=True, timeout=timeout)
        out, rc = p.stdout, p.returncode
    except subprocess.TimeoutExpired as e:
        out, rc = "timeout", -9
    ran = re.search(r"running (\d+) test", out)
    nrun = max([int(x) for x in re.findall(r"running (\d+) test", out)] or [0])
    reproduced = (rc != 0) and ("panicked at" in out) and ("replay: " not in out) and nrun >= 1
    # keep the tail of the output (panic message)
    keep = "\n".join([l for l in out.split("\n") if not l.startswith(("   Compiling", "warning", "  ", " -->", "   |"))][-40:])
    return {"cmd": "VERIF_REPLAY_VALS='%s' RUSTFLAGS='--cfg verif_replay' %s   (cwd: scratch copy of the working tree + harness overlay)" % (vals, " ".join(cmd)),
            "rc": rc, "tests_run": nrun, "reproduced_natively": reproduced, "output_tail": keep[-3000:], "wall_s": round(time.time() - t0, 1)}

def load_unit(name):
    p = name if os.path.exists(name) else os.path.join(SPECDIR, name + ".kspec")
    return parse_kspec(p)

if __name__ == "__main__":
    import argparse
    ap = argparse.ArgumentParser()
    ap.add_argument("units", nargs="+")
    ap.add_argument("--repo", default="/repo")
    ap.add_argument("--keep", action="store_true")
    ap.add_argument("--only", nargs="*")
    ap.add_argument("--tier", default="quick")
    ap.add_argument("-j", type=int, default=None)
    ap.add_argument("--replay", action="store_true")
    a = ap.parse_args()
    us = [load_unit(x) for x in a.units]
    groups = {}
    for u in us:
        groups.setdefault(u["dir"], []).append(u)
    rc = 0
    for d, g in groups.items():
        res, log = run_unit_group(g, repo=a.repo, keep=a.keep, only=a.only, tier=a.tier, jobs=a.j, tag="cli-" + os.environ.get("VERIF_TAG", str(os.getpid())) + "-" + re.sub(r"\W", "_", d), replay=a.replay)
        for l in log: print("#", l)
        for h, r in res.items():
            print(h, r["status"], r.get("reason", ""), "checks=%s" % r.get("checks_total"), "t=%s" % r.get("solver_s"),
                  [f.get("desc") for f in r.get("failed_checks", [])][:3], r.get("concrete_vals", "")[:6] if r.get("concrete_vals") else "")
            if r.get("native_replay"): print("   native replay:", json.dumps(r["native_replay"], indent=1)[:3000])
            exp = next(h2 for u in g for h2 in u["harnesses"] if h2["name"] == h)["expect"]
            if (r["status"] == "pass") != (exp == "pass"):
                rc = 1
    sys.exit(rc)
