#!/usr/bin/env python3
"""setup: offline sanity check of the verifiers and (optional) warm-up of the Kani build cache."""
import os, subprocess, sys
VERIF = os.path.dirname(os.path.dirname(os.path.abspath(__file__)))
os.makedirs(os.path.join(VERIF, ".cache", "logs"), exist_ok=True)
os.makedirs(os.path.join(VERIF, "evidence"), exist_ok=True)
ok = True
for cmd in (["verus", "--version"], ["cargo", "kani", "--version"]):
    try:
        p = subprocess.run(cmd, stdout=subprocess.PIPE, stderr=subprocess.STDOUT, text=True, timeout=120)
        print("$", " ".join(cmd), "->", p.stdout.strip().split("\n")[0])
        ok = ok and p.returncode == 0
    except Exception as e:
        print("missing tool:", cmd, e); ok = False
sys.exit(0 if ok else 1)
