#!/bin/bash
# seedtest.sh <Cxx> <patch.diff> : apply a seeded change to /repo, run the property's quick check, undo. (development aid)
set -u
P=$1; PATCH=$2
cd /repo || exit 9
git diff --quiet || { echo "repo dirty"; exit 9; }
git apply "$PATCH" || { echo "patch does not apply"; exit 9; }
cd /verif && python3 tools/check.py "$P" --no-evidence ${3:-} 2>&1 | grep -E "VIOLATION|UNDECIDED|failed obligation|^property" ; rc=${PIPESTATUS[0]}
git -C /repo checkout -- . ; echo "rc=$rc"
