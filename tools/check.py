#!/usr/bin/env python3
"""check.py <Cxx> [--tier quick|thorough] - decide one property with the contract units that serve it.

exit 0  every obligation of every unit discharged on the current /repo working tree
exit 1  + `VIOLATION property=<id> replay=<path>` : an obligation registered as discharged on the pinned tree fails
exit 2  + `UNDECIDED unit=... reason=...`        : lost item/anchor, unsupported construct, timeout, tool crash (never an alarm)
Writes /verif/evidence/<id>.json on every run.
"""
import argparse, concurrent.futures, glob, json, os, re, sys, time
HERE = os.path.dirname(os.path.abspath(__file__))
sys.path.insert(0, HERE)
import vx, kx

VERIF = os.path.dirname(HERE)
REPO = os.environ.get("VERIF_REPO", "/repo")

def load_meta():
    return json.load(open(os.path.join(VERIF, "specs", "properties_meta.json")))

def load_known():
    p = os.path.join(VERIF, "known_findings.json")
    if not os.path.exists(p):
        return []
    return json.load(open(p)).get("findings", [])

def registered():
    p = os.path.join(VERIF, "specs", "registered.json")
    return json.load(open(p)) if os.path.exists(p) else {"verus": [], "kani": []}

def discover(prop, all_units=False):
    vunits, kunits = [], []
    reg = registered()
    for p in sorted(glob.glob(os.path.join(VERIF, "specs", "verus", "*.vspec"))):
        head = open(p, encoding="utf-8").read(4000)
        m = re.search(r"^//@serves (.*)$", head, re.M)
        if not all_units and os.path.splitext(os.path.basename(p))[0] not in reg["verus"]:
            continue
        if m and prop in m.group(1).split():
            mt = re.search(r"^//@tier (\w+)$", head, re.M)
            vunits.append((p, mt.group(1) if mt else "quick"))
    for p in sorted(glob.glob(os.path.join(VERIF, "specs", "kani", "*.kspec"))):
        head = open(p, encoding="utf-8").read(4000)
        m = re.search(r"^//@serves (.*)$", head, re.M)
        if not all_units and os.path.splitext(os.path.basename(p))[0] not in reg["kani"]:
            continue
        if m and prop in m.group(1).split():
            kunits.append(p)
    return vunits, kunits

def main():
    ap = argparse.ArgumentParser()
    ap.add_argument("prop")
    ap.add_argument("--tier", default=os.environ.get("VERIF_TIER", "quick"))
    ap.add_argument("--unit", action="append", help="restrict to these units (development)")
    ap.add_argument("--no-evidence", action="store_true")
    ap.add_argument("--all-units", action="store_true", help="also run units not yet listed in specs/registered.json (development)")
    ap.add_argument("--fast-fail", action="store_true", help="skip the Kani units when a Verus unit already reports a violation (seed matrix)")
    a = ap.parse_args()
    prop = a.prop
    tier = a.tier if a.tier in ("quick", "thorough") else "quick"
    seed = int(os.environ.get("VERIF_SEED", "0") or 0)
    t0 = time.time()
    meta = load_meta().get(prop, {})
    # findings recorded under this property, plus findings recorded under another property whose witness lives in a unit that
    # also serves this one (a unit may serve several properties; its expect=fail harness / refuted variant is the same finding)
    all_known = load_known()
    known = [k for k in all_known if k.get("property") == prop]
    vunits, kunits = discover(prop, a.all_units)
    if a.unit:
        vunits = [(p, t) for p, t in vunits if os.path.splitext(os.path.basename(p))[0] in a.unit]
        kunits = [p for p in kunits if os.path.splitext(os.path.basename(p))[0] in a.unit]
    vunits = [p for p, t in vunits if t == "quick" or tier == "thorough"]
    workdir = "/tmp/verif-vx-%s-%d" % (prop, os.getpid())

    # ---------------- Verus units (parallel processes)
    vres = []
    rl = 20 if tier == "thorough" else None
    with concurrent.futures.ThreadPoolExecutor(max_workers=8) as ex:
        futs = {ex.submit(vx.check_unit, p, REPO, workdir, rl): p for p in vunits}
        for f in concurrent.futures.as_completed(futs):
            try:
                vres.append(f.result())
            except Exception as e:   # tool crash -> undecided
                vres.append({"unit": os.path.basename(futs[f]), "backend": "verus", "status": "undecided", "reason": "tool-crash %r" % e,
                             "functions": [], "log": [], "trusted_base": [], "obligations": 0, "discharged": 0})
    vres.sort(key=lambda r: r["unit"])
    # known-finding witness variants of Verus units: the unit assembled with `//@ifdef <define>` blocks enabled states the
    # unrestricted claim; while the defect exists that run must FAIL on the recorded obligation
    vwit = []
    for k in known:
        if k.get("status") == "known" and k.get("define") and k.get("unit") in registered()["verus"] and not a.unit:
            try:
                r = vx.check_unit(k["unit"], REPO, workdir, None, False, False, (k["define"],))
            except Exception as e:
                r = {"status": "undecided", "reason": "tool-crash %r" % e, "failed": []}
            vwit.append((k, r))

    # ---------------- Kani units (one cargo kani invocation per crate directory)
    kres = {}   # harness -> result
    klog = []
    kunit_objs = []
    for p in kunits:
        try:
            kunit_objs.append(kx.parse_kspec(p))
        except Exception as e:
            kres["<%s>" % os.path.basename(p)] = {"status": "undecided", "reason": "kspec %r" % e, "unit": os.path.basename(p), "level": "?"}
    if a.fast_fail and any(r["status"] == "violation" for r in vres):
        kunit_objs = []
    groups = {}
    for u in kunit_objs:
        groups.setdefault((u["dir"], " ".join(u["flags"])), []).append(u)    # units with different kani flags are never mixed
    for gi, ((d, _fl), g) in enumerate(sorted(groups.items())):
        try:
            res, log = kx.run_unit_group(g, repo=REPO, tier=tier, tag="%s-%s-%d" % (prop, re.sub(r"\W", "_", d), gi), replay=True)
        except Exception as e:
            res, log = {h["name"]: {"status": "undecided", "reason": "tool-crash %r" % e, "unit": h["unit"], "level": h["level"]} for u in g for h in u["harnesses"]}, []
        kres.update(res); klog += log
    hdefs = {h["name"]: h for u in kunit_objs for h in u["harnesses"]}

    # ---------------- classification
    violations, undecided, known_lines = [], [], []
    served_units = {os.path.splitext(os.path.basename(p))[0] for p in vunits} | {u["unit"] for u in kunit_objs}
    for k in all_known:
        if k not in known and k.get("status") == "known" and k.get("unit") in served_units and (k.get("harness") or k.get("verus_obligation")):
            known.append(k)
    known_by_harness = {k["harness"]: k for k in known if k.get("status") == "known" and k.get("harness")}
    known_by_oblig = [k for k in known if k.get("status") == "known" and k.get("verus_obligation")]
    os.makedirs(os.path.join(VERIF, "replay", prop), exist_ok=True)

    def write_replay(name, payload):
        path = os.path.join(VERIF, "replay", prop, re.sub(r"[^\w.-]", "_", name) + ".json")
        json.dump(payload, open(path, "w"), indent=1)
        return path

    for r in vres:
        if r["status"] == "violation":
            new_fail = []
            for f in r["failed"]:
                k = next((k for k in known_by_oblig if k["unit"] == r["unit"] and k["verus_obligation"] in f["obligation"]), None)
                if k is not None:
                    known_lines.append("KNOWN-FINDING: property=%s %s: %s" % (prop, k["id"], k["what"]))
                    k["_seen"] = True
                else:
                    new_fail.append(f)
            if new_fail:
                path = write_replay(r["unit"], {"property": prop, "unit": r["unit"], "backend": "verus", "failed_obligations": new_fail,
                                               "assembled_file": r.get("assembled"), "checker_cmd": r.get("checker_cmd"),
                                               "functions": r.get("functions"), "rewrite_log": r.get("log"),
                                               "counterexample": "Verus gives no model; no paired witness search produced a failing input",
                                               "note": "obligation discharged on the pinned tree, fails on the current working tree"})
                violations.append((r["unit"], new_fail[0]["obligation"], path, "no-failing-input-found"))
            else:
                r["status"] = "pass-with-known-findings"
        elif r["status"] == "undecided":
            undecided.append((r["unit"], r.get("reason", "?")))
    for k, r in vwit:
        hit = [f for f in r.get("failed", []) if k.get("verus_obligation", "") in f.get("obligation", "")]
        if r["status"] == "violation" and hit:
            known_lines.append("KNOWN-FINDING: property=%s %s: %s" % (prop, k["id"], k["what"])); k["_seen"] = True
            k["_witness"] = hit[0]["obligation"]
        elif r["status"] == "pass":
            k["_note"] = "witness variant verified: the recorded finding no longer reproduces"
        else:
            k["_note"] = "witness variant undecided: %s" % r.get("reason", "?")
    for name, r in sorted(kres.items()):
        h = hdefs.get(name, {"expect": "pass", "level": "?"})
        if h.get("expect") == "fail":
            k = known_by_harness.get(name)
            if r["status"] == "fail":
                if k:
                    known_lines.append("KNOWN-FINDING: property=%s %s: %s" % (prop, k["id"], k["what"])); k["_seen"] = True
                else:
                    undecided.append((r.get("unit", "?"), "harness %s is marked expect=fail but no known finding lists it" % name))
            elif r["status"] == "pass":
                r["note"] = "expected-to-fail witness harness passed: the recorded finding no longer reproduces"
            else:
                undecided.append((r.get("unit", "?") + "::" + name, r.get("reason", "?")))
            continue
        if r["status"] == "fail":
            nr = r.get("native_replay")
            suffix = "" if (nr and nr.get("reproduced_natively")) else (" no-failing-input-found" if not r.get("concrete_vals") else "")
            path = write_replay(r.get("unit", "kani") + "__" + name, {"property": prop, "unit": r.get("unit"), "harness": name, "backend": "kani",
                                "failed_checks": r.get("failed_checks"), "concrete_vals": r.get("concrete_vals"),
                                "kani_playback_test": r.get("playback_test"), "native_replay": nr, "level": r.get("level")})
            violations.append((r.get("unit", "?") + "::" + name, "; ".join(f.get("desc", "") for f in r.get("failed_checks", [])[:3]), path, suffix.strip()))
        elif r["status"] != "pass":
            undecided.append((r.get("unit", "?") + "::" + name, r.get("reason", "?")))

    # ---------------- thorough tier: mutation self-test of this property's units (reported, never an alarm)
    mut_results = None
    if tier == "thorough" and not a.unit and not violations and not undecided:
        try:
            import selftest
            mut_results = selftest.run(prop=prop)
        except Exception as e:
            mut_results = [{"unit": "*", "mutant": "*", "result": "TOOL-ERROR", "detail": repr(e)}]

    # ---------------- evidence
    proved_obl = 0; proved_dis = 0
    bounded = []
    units_ev = []
    trusted = []
    samples = []
    functions = []
    for r in vres:
        ok = r["status"] in ("pass", "pass-with-known-findings")
        proved_obl += r.get("obligations", 0)
        proved_dis += r.get("discharged", 0)
        units_ev.append({"unit": r["unit"], "backend": "verus", "level": r.get("level", "proved-unbounded"), "status": r["status"],
                         "reason": r.get("reason"), "verified_functions": r.get("discharged", 0), "smt_ms": r.get("smt_ms"),
                         "wall_s": r.get("wall_s"), "repo_items": r.get("functions", []), "rewrite_rules_applied": r.get("log", []),
                         "function_results": r.get("function_results", []), "canary": r.get("canary"),
                         "failed": [f.get("obligation") for f in r.get("failed", [])],
                         "assembled_sha256_16": r.get("assembled_sha256_16"), "notes": r.get("notes", [])})
        trusted += ["[%s] %s" % (r["unit"], t) for t in r.get("trusted_base", [])]
        for fr in r.get("function_results", [])[:4]:
            samples.append("verus %s::%s (%s) %s in %s ms" % (r["unit"], fr["function"], fr["mode"], "verified" if fr["ok"] else "FAILED", fr["ms"]))
        functions += [f["item"] for f in r.get("functions", [])]
    for name, r in sorted(kres.items()):
        h = hdefs.get(name, {})
        lvl = h.get("level", r.get("level", "?"))
        if h.get("expect") == "fail":
            units_ev.append({"unit": r.get("unit"), "harness": name, "backend": "kani", "level": lvl, "status": "known-finding-witness:" + r["status"],
                             "finding": h.get("finding")})
            continue
        entry = {"unit": r.get("unit"), "harness": name, "backend": "kani/cbmc", "level": lvl, "status": r["status"], "reason": r.get("reason"),
                 "cbmc_checks": r.get("checks_total"), "cbmc_checks_failed": r.get("checks_failed"), "solver_s": r.get("solver_s"),
                 "covers": h.get("covers", [])}
        units_ev.append(entry)
        functions += h.get("covers", [])
        if str(lvl).startswith("bounded"):
            bounded.append({"harness": name, "bound": lvl, "status": r["status"], "cbmc_checks": r.get("checks_total")})
        else:
            proved_obl += r.get("checks_total") or 0
            proved_dis += (r.get("checks_total") or 0) - (r.get("checks_failed") or 0) if r["status"] in ("pass", "fail") else 0
            samples.append("kani %s::%s %s: %s CBMC checks, %.1fs" % (r.get("unit"), name, r["status"], r.get("checks_total"), r.get("solver_s") or 0))
    for u in kunit_objs:
        trusted += ["[%s] %s" % (u["unit"], t) for t in u.get("trusted", [])]
    assumptions = list(meta.get("assumptions", [])) + [
        "Verus 0.2026.09.13 + Z3, Kani 0.68 + CBMC 6.11 and both rustc toolchains are trusted; Kani compiles the crate with its own nightly",
        "extraction (tools/vx.py: lexer, brace matcher, splicer) and its rewrite rules R-attr/R-vis/R-dbg/R-iter/R-idx/R-ret/R-expr/R-panic/R-default are trusted; every application is listed per unit under rewrite_rules_applied",
        "extraction drops: the surrounding crate (callers outside the units are not checked against a verified `requires`), Drop glue, panic messages, cfg selection other than the default feature set, bodies of external callees (replaced by the contracts listed in trusted_base)",
        "a Verus `requires` on an extracted function is an assumption about callers that are not themselves in a unit",
    ]
    ev = {
        "property_id": prop, "tier": tier, "seed": seed, "level": "proof",
        "coverage": {
            "obligations": proved_obl, "discharged": proved_dis,
            "checker_cmd": "python3 tools/check.py %s --tier %s  (per unit: `verus <assembled>.rs --output-json --time-expanded`; `cargo kani -Z function-contracts -Z stubbing --harness ...` on a scratch copy of the working tree)" % (prop, tier),
            "trusted_base": trusted,
            "samples": samples[:40],
            "explanation": "obligations = functions verified by Verus (each = all requires/ensures/invariant/overflow/termination conditions of that function) + CBMC property checks of the complete (non-bounded) Kani harnesses; bounded harnesses are listed under bounded_standins and NOT counted",
            "units": units_ev,
            "functions_under_contract": sorted(set(functions)),
            "bounded_standins": bounded,
            "kani_log": klog,
            "decided_part": meta.get("decided_part", ""),
            "undecided_part": meta.get("undecided_part", ""),
            "known_findings_reported": known_lines,
            "exhaustive": False,
        },
        "assumptions": assumptions,
        "wall_s": round(time.time() - t0, 2),
        "violations": len(violations),
    }
    if mut_results is not None:
        ev["coverage"]["mutation_selftest"] = {"mutants": len(mut_results), "caught": sum(1 for r in mut_results if r["result"] == "CAUGHT"),
                                               "not_caught": [r for r in mut_results if r["result"] != "CAUGHT"],
                                               "note": "each mutant = one semantic edit of a covered repository line (specs/mutants/<unit>/*.patch) applied to a scratch copy; the unit must report a violation"}
    if undecided:
        ev["coverage"]["undecided_units"] = [{"unit": u, "reason": r} for u, r in undecided]
    if not a.no_evidence:
        os.makedirs(os.path.join(VERIF, "evidence"), exist_ok=True)
        json.dump(ev, open(os.path.join(VERIF, "evidence", prop + ".json"), "w"), indent=1)

    # ---------------- report
    print("property %s tier=%s: %d Verus units, %d Kani harnesses; obligations %d discharged %d; bounded stand-ins %d; wall %.1fs" % (
        prop, tier, len(vres), len(kres), proved_obl, proved_dis, len(bounded), time.time() - t0))
    for r in vres:
        print("  verus %-28s %-10s fns=%s smt=%sms %s" % (r["unit"], r["status"], r.get("discharged"), r.get("smt_ms"), r.get("reason") or ""))
    for name, r in sorted(kres.items()):
        print("  kani  %-28s %-10s checks=%s t=%ss [%s] %s" % (name, r["status"], r.get("checks_total"), r.get("solver_s"), hdefs.get(name, {}).get("level"), r.get("reason") or ""))
    if mut_results is not None:
        print("  mutation self-test: %d mutants, %d caught" % (len(mut_results), sum(1 for r in mut_results if r["result"] == "CAUGHT")))
        for r in mut_results:
            if r["result"] != "CAUGHT":
                print("    %s/%s: %s %s" % (r["unit"], r["mutant"], r["result"], r.get("detail", "")[:160]))
    for l in known_lines:
        print(l)
    for k in known:
        h = hdefs.get(k.get("harness") or "", None)
        if k.get("status") == "known" and not k.get("_seen") and h is not None and h.get("tier") == "thorough" and tier != "thorough":
            print("KNOWN-FINDING: property=%s %s: %s (its witness harness %s runs in the thorough tier)" % (prop, k["id"], k["what"], k["harness"])); k["_seen"] = True
    for k in known:
        if k.get("status") == "known" and k.get("witness") == "native-only":
            print("KNOWN-FINDING: property=%s %s: %s" % (prop, k["id"], k["what"])); k["_seen"] = True
    for k in known:
        if k.get("status") == "known" and not k.get("_seen"):
            print("NOTE: known finding %s was not reproduced by this run (%s) %s" % (k["id"], k.get("what"), k.get("_note", "")))
    if violations:
        for u, ob, path, suffix in violations:
            print("  failed obligation: %s :: %s" % (u, ob))
            print("VIOLATION property=%s replay=%s%s" % (prop, path, (" " + suffix) if suffix else ""))
        sys.exit(1)
    if undecided:
        for u, reason in undecided:
            print("UNDECIDED unit=%s reason=%s" % (u, reason))
        sys.exit(2)
    if proved_dis == 0:
        print("UNDECIDED unit=* reason=no obligations generated (vacuous run)")
        sys.exit(2)
    sys.exit(0)

if __name__ == "__main__":
    main()
