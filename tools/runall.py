#!/usr/bin/env python3
"""runall.py [verus|kani] [unit...] - run every unit file (registered or not) and print a status table (development aid)."""
import sys, os, glob, json, concurrent.futures
HERE = os.path.dirname(os.path.abspath(__file__)); sys.path.insert(0, HERE)
import vx, kx
VERIF = os.path.dirname(HERE)
kind = sys.argv[1] if len(sys.argv) > 1 else "verus"
sel = sys.argv[2:]
if kind == "verus":
    units = sorted(os.path.splitext(os.path.basename(p))[0] for p in glob.glob(os.path.join(VERIF, "specs/verus/*.vspec")))
    units = [u for u in units if not sel or u in sel]
    with concurrent.futures.ThreadPoolExecutor(max_workers=8) as ex:
        for r in ex.map(lambda u: vx.check_unit(u, workdir="/tmp/verif-runall"), units):
            print("%-28s %-10s fns=%-3s real=%-3s canary=%s wall=%ss %s" % (r["unit"], r["status"], r.get("discharged"), len(r.get("functions", [])),
                  (r.get("canary") or {}).get("failed_as_expected"), r.get("wall_s"), (r.get("reason") or "")[:200]))
            for f in r.get("failed", [])[:3]:
                print("      ", f.get("obligation"))
else:
    units = sorted(os.path.splitext(os.path.basename(p))[0] for p in glob.glob(os.path.join(VERIF, "specs/kani/*.kspec")))
    units = [u for u in units if not sel or u in sel]
    us = [kx.load_unit(u) for u in units]
    groups = {}
    for u in us: groups.setdefault((u["dir"], " ".join(u["flags"])), []).append(u)
    for gi, ((d, _fl), g) in enumerate(groups.items()):
        res, log = kx.run_unit_group(g, tag="runall-%d-" % gi + d.replace(".", "_").replace("/", "_"))
        for h, r in sorted(res.items(), key=lambda x: (x[1].get("unit"), x[0])):
            print("%-26s %-42s %-10s checks=%-5s t=%-8s %s" % (r.get("unit"), h, r["status"], r.get("checks_total"), r.get("solver_s"), (r.get("reason") or "")[:160]))
