#!/usr/bin/env python3
"""seed_merge.py <part.json>... : merge partial result files written by parallel seed_matrix.py workers (VERIF_SEED_RESULTS) into
seeded/results.json, then regenerate SEEDED.md (by running seed_matrix.py with an empty id list)."""
import json, os, sys, subprocess
VERIF = os.path.dirname(os.path.dirname(os.path.abspath(__file__)))
resf = os.path.join(VERIF, "seeded", "results.json")
res = json.load(open(resf)) if os.path.exists(resf) else {}
for p in sys.argv[1:]:
    res.update(json.load(open(p)))
json.dump(res, open(resf, "w"), indent=1)
subprocess.run([sys.executable, os.path.join(VERIF, "tools", "seed_matrix.py"), "__none__"], cwd=VERIF)
