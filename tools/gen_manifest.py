#!/usr/bin/env python3
"""Regenerate /verif/MANIFEST.json from specs/properties_meta.json and the units present under specs/."""
import glob, json, os, re
VERIF = os.path.dirname(os.path.dirname(os.path.abspath(__file__)))
meta = json.load(open(os.path.join(VERIF, "specs", "properties_meta.json")))
served = {}
reg = json.load(open(os.path.join(VERIF, "specs", "registered.json")))
regset = set(reg["verus"]) | set(reg["kani"])
for p in glob.glob(os.path.join(VERIF, "specs", "verus", "*.vspec")) + glob.glob(os.path.join(VERIF, "specs", "kani", "*.kspec")):
    head = open(p).read(4000)
    if os.path.splitext(os.path.basename(p))[0] not in regset:
        continue
    m = re.search(r"^//@serves (.*)$", head, re.M)
    if m:
        for c in m.group(1).split():
            served.setdefault(c, []).append(os.path.splitext(os.path.basename(p))[0])
baseline = json.load(open("/root/.vp/BASELINE.json"))
checks, na = [], []
for pid in sorted(meta):
    m = meta[pid]
    if m.get("na_reason") or pid not in served:
        na.append({"property_id": pid, "reason": m.get("na_reason") or "no contract unit registered for this property (see DESIGN.md)"})
        continue
    checks.append({
        "property_id": pid,
        "quick_cmd": "python3 tools/check.py %s --tier quick" % pid,
        "thorough_cmd": "python3 tools/check.py %s --tier thorough" % pid,
        "evidence_file": "/verif/evidence/%s.json" % pid,
        "replay_cmd_template": "cat {path}",
        "engine": "contracts",
        "level_claimed": {"category": "proof", "text": m["level_text"], "design_ref": m.get("design_ref", "DESIGN.md section 4, " + pid)},
        "level_note": m["level_note"],
        "technique": m.get("technique", "contract-based deductive verification: Verus on mechanically extracted functions + Kani/CBMC function contracts and complete harnesses on the real crate"),
    })
man = {
    "version": 1,
    "setup_cmd": "python3 tools/setup.py",
    "hooks": {
        "guard": "kani",
        "enable": "no hook commits in /repo: the Kani overlay (contract attributes + `#[cfg(any(kani, verif_replay))]` harness modules) is applied by tools/kx.py to a scratch copy of the working tree on every run; Verus units are extracted from the working tree by tools/vx.py",
        "baseline_off_cmd": "cd /repo && cargo nextest run --workspace --no-fail-fast --test-threads 8 --offline || cargo test --workspace --no-fail-fast --offline",
        "source_commits": [],
        "add_only": True,
    },
    "engines": [
        {"name": "contracts", "path": "/verif/tools/check.py", "serves_properties": [c["property_id"] for c in checks],
         "kind_free_text": "per-property driver: Verus units (tools/vx.py: extract real functions from /repo, splice contracts/invariants/ghost hints, `verus file.rs`) and Kani units (tools/kx.py: overlay harness modules and contract attributes on a scratch copy of /repo, `cargo kani`), vacuity canaries, native replay of Kani counterexamples"},
    ],
    "checks": checks,
    "not_applicable": na,
    "notes": "Technique family: contract-based deductive verification of the real code. Bounded Kani harnesses are labelled bounded and never counted as proved. Exit 2 = undecided (lost anchor, unsupported construct, timeout), never an alarm.",
}
json.dump(man, open(os.path.join(VERIF, "MANIFEST.json"), "w"), indent=1)
print("claimed:", [c["property_id"] for c in checks], "n/a:", [n["property_id"] for n in na])
