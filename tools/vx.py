#!/usr/bin/env python3
"""vx.py - assemble one Verus unit from the *current* /repo working tree and run Verus on it.

A unit is described by specs/verus/<unit>.vspec: raw Verus text (prelude, spec fns, trait contracts,
impl headers, lemmas) interleaved with extraction directives.  Function bodies, structs, consts are
copied verbatim from the repository at run time; the overlay only adds ghost text.

Directives (each at the start of a line):

  //@unit NAME                      //@serves C13 C03          //@level proved-unbounded
  //@include prelude/NAME.vinc      (textual include of another spec file, directives allowed)
  //@ifdef NAME / //@ifndef NAME / //@else / //@endif   conditional spec text; `--define NAME` (check.py: known-finding witness variants,
                                    e.g. the unrestricted claim that a recorded defect still refutes)
  //@item FILE :: SEG [:: SEG]      copy a struct/enum/const/type/fn item verbatim (attributes, docs, `pub` dropped)
  //@fn FILE :: SEG :: fn NAME      copy a function; the following ops apply until //@end
      //@name NEW                   emit the function under another name (R-default instantiation etc.)
      //@ret r                      R-ret: `-> T` becomes `-> (r: T)`
      //@attr                       (block) attributes placed before `fn`
      //@spec                       (block) requires/ensures/decreases placed between signature and body
      //@entry                      (block) ghost text placed right after the opening brace
      //@exit                       (block) ghost text placed right before the closing brace
      //@loop N                     (block) invariant/decreases for the N-th loop of the body (source order, 1-based)
      //@before "pat" [#k]          (block) ghost text on its own line(s) before the line holding the k-th occurrence of pat
      //@afterline "pat" [#k]       (block) ... after that line
      //@after "pat" [#k]           (block) ... after the end of the statement that contains the occurrence
      //@beforestmt N / //@afterstmt N   (block) structural anchor: before/after the N-th top-level statement of the body (negative: from the end)
      //@beforetail                 (block) before the last top-level statement / tail expression of the body
      //@replace "pat" [#k|#all] => "text"     R-expr: logged textual replacement inside the function
      //@replace? "pat" ... => "text"          same, but optional: if the construct is absent nothing is rewritten (use it for
                                               rewrites that only work around a Verus limitation, so an edit that removes the construct stays decidable)
      //@sigreplace "pat" => "text" same, restricted to the signature
      //@idxloop N k                R-idx: rewrite the N-th loop `for P in E.iter_mut()[.enumerate()]` / `for P in &mut E` as index loop over `k`
      //@assert2panic               R-panic: assert!(c, ..) => if !(c) { vpanic() }
      //@keepdebug                  do not apply R-dbg to this function
  //@end

Automatic rules on extracted text: R-attr (drop outer attributes and doc comments), R-vis (drop pub…),
R-dbg (delete debug_assert*! statements), R-iter (`for p in &mut e` => `for p in e.iter_mut()`, `for p in &e` => `for p in e.iter()`
for simple paths e), R-const (delete `const { assert!(..) }` statements).
Every application is logged and returned in the result (-> evidence).

Result classification (see DESIGN.md section 3):
  pass       all functions verified
  violation  Verus reports a failed obligation (postcondition / precondition / invariant / assert / overflow …)
  undecided  lost item or anchor, rustc error in the assembled text, rlimit, tool crash
"""
import hashlib, json, os, re, subprocess, sys, time
sys.path.insert(0, os.path.dirname(os.path.abspath(__file__)))
from rslex import Src, locate, LocateError, LexError, lex, is_trivia, parse_items

VERIF = os.path.dirname(os.path.dirname(os.path.abspath(__file__)))
SPECDIR = os.path.join(VERIF, "specs", "verus")

class Undecided(Exception):
    pass

_src_cache = {}
def load_src(repo, rel):
    key = (repo, rel)
    if key not in _src_cache:
        p = os.path.join(repo, rel)
        if not os.path.exists(p):
            raise Undecided("lost-file %s" % rel)
        try:
            _src_cache[key] = Src(open(p, encoding="utf-8").read(), rel)
        except LexError as e:
            raise Undecided("lex-error %s" % e)
    return _src_cache[key]

def parse_pat(s):
    """parse `"pat" [#k]` -> (pat, k) ; k = 1 default, 'all' allowed"""
    s = s.strip()
    m = re.match(r'^"((?:[^"\\]|\\.)*)"\s*(?:#(\d+|all))?\s*(.*)$', s, re.S)
    if not m:
        raise Undecided("bad-pattern %r" % s)
    pat = m.group(1).replace('\\"', '"').replace("\\n", "\n").replace("\\\\", "\\")   # \n: a pattern may span lines (same escapes as the replacement text)
    k = m.group(2)
    k = 1 if k is None else (k if k == "all" else int(k))
    return pat, k, m.group(3)

def unq(s):
    s = s.strip()
    m = re.match(r'^"((?:[^"\\]|\\.)*)"$', s, re.S)
    if not m:
        raise Undecided("bad-string %r" % s)
    return m.group(1).replace('\\"', '"').replace("\\n", "\n").replace("\\\\", "\\")

class Line:
    __slots__ = ("text", "origin")   # origin: ("repo", file, line) | ("spec", file, line)
    def __init__(self, text, origin):
        self.text = text; self.origin = origin

def find_code_occurrences(text, pat):
    """occurrences of pat in text that do not start inside a comment or string literal"""
    toks = lex(text)
    bad = [(a, b) for (k, a, b) in toks if k in ("lcomment", "bcomment", "str")]
    res = []
    start = 0
    while True:
        i = text.find(pat, start)
        if i < 0: break
        if not any(a <= i < b for a, b in bad) or (pat.startswith('"') or pat.startswith("//")):
            res.append(i)
        start = i + 1
    return res

class FnUnit:
    """one extracted function being rewritten; works on a list of Lines."""
    def __init__(self, repo, locator, specfile, specline):
        self.repo = repo
        self.locator = locator
        parts = [p.strip() for p in locator.split(" :: ")]
        self.file = parts[0]
        self.segs = parts[1:]
        self.specfile, self.specline = specfile, specline
        self.log = []
        src = load_src(repo, self.file)
        try:
            it = locate(src, self.segs)
        except LocateError as e:
            raise Undecided("lost-item %s (%s)" % (locator, e))
        self.item = it
        self.src = src
        self.kind = it.kind
        self.fname = it.name
        raw = it.text()
        self.raw_sha = hashlib.sha256(raw.encode()).hexdigest()[:16]
        # text from keyword (skips attributes, docs, visibility, but keeps `const`/`unsafe` modifiers? we drop pub only)
        t0 = self._first_after_attrs()
        self.start_line = src.line_of(src.toks[t0][1])
        body = src.text[src.toks[t0][1]:it.end_pos()]
        first_line_start = src.line_starts[self.start_line - 1]
        indent = src.text[first_line_start:src.toks[t0][1]]
        if indent.strip():
            indent = ""
        text = indent + body
        self.lines = [Line(l, ("repo", self.file, self.start_line + i)) for i, l in enumerate(text.split("\n"))]
        if it.tstart != t0:
            self.log.append("R-attr/R-vis: dropped attributes/docs/visibility of %s" % self.label())

    def label(self):
        return "%s::%s" % (self.file, " :: ".join(self.segs))

    def _first_after_attrs(self):
        """token index of the first token after attributes/doc comments and `pub(..)`"""
        src, it = self.src, self.item
        k = src.next_sig(it.tstart)
        while src.s(k) == "#":
            k2 = src.next_sig(k + 1)
            if src.s(k2) == "!": k2 = src.next_sig(k2 + 1)
            k = src.next_sig(src.match(k2) + 1)
        if src.s(k) == "pub":
            nx = src.next_sig(k + 1)
            if src.s(nx) == "(":
                nx = src.next_sig(src.match(nx) + 1)
            k = nx
        return k

    # ----- helpers over the joined text
    def joined(self):
        return "\n".join(l.text for l in self.lines)

    def pos_to_line(self, pos):
        acc = 0
        for i, l in enumerate(self.lines):
            if pos <= acc + len(l.text):
                return i, pos - acc
            acc += len(l.text) + 1
        return len(self.lines) - 1, len(self.lines[-1].text)

    def body_open_pos(self):
        """position of the `{` opening the fn body in joined text"""
        text = self.joined()
        s = Src(text)
        items = parse_items(s, 0, len(s.toks))
        if not items or items[0].tbody_open is None:
            raise Undecided("no-body %s" % self.label())
        return s.toks[items[0].tbody_open][1], s.toks[s.match(items[0].tbody_open)][1]

    def occurrence(self, pat, k, what):
        text = self.joined()
        occ = find_code_occurrences(text, pat)
        if k == "all":
            if not occ:
                raise Undecided("lost-anchor %s %r in %s" % (what, pat, self.label()))
            return occ
        if len(occ) < k:
            raise Undecided("lost-anchor %s %r #%s in %s (found %d)" % (what, pat, k, self.label(), len(occ)))
        return occ[k - 1]

    def spec_lines(self, block, origin):
        return [Line(t, ("spec", origin[0], origin[1] + i)) for i, t in enumerate(block)]

    # ----- automatic rules
    def auto_rules(self, keepdebug=False):
        # strip `pub` on struct fields / inner fns, doc comments and attributes inside items (struct fields)
        if self.kind in ("struct", "enum", "union"):
            new = []
            open_attr = 0      # > 0 while inside a field attribute that spans several lines (`#[error(\n "..."\n )]`)
            for l in self.lines:
                st = l.text.strip()
                if open_attr > 0 or st.startswith("#["):
                    bare = re.sub(r'"(?:[^"\\]|\\.)*"', '""', st)
                    open_attr += bare.count("[") - bare.count("]")
                    continue
                if st.startswith("///"):
                    continue
                t2 = re.sub(r"^(\s*)pub(\([^)]*\))?\s+", r"\1", l.text)
                new.append(Line(t2, l.origin))
            if len(new) != len(self.lines) or any(a.text != b.text for a, b in zip(new, self.lines)):
                self.log.append("R-attr/R-vis: field attributes/docs/visibility dropped in %s" % self.label())
            self.lines = new
            return
        if self.kind != "fn":
            return
        # R-dbg / R-const : delete statements
        text = self.joined()
        s = Src(text)
        dels = []
        toks = s.toks
        for i, t in enumerate(toks):
            if t[0] == "id":
                w = s.s(i)
                if w in ("debug_assert", "debug_assert_eq", "debug_assert_ne") and not keepdebug:
                    a = s.next_sig(i + 1)
                    if a is not None and s.s(a) == "!":
                        b = s.next_sig(a + 1)
                        e = s.match(b)
                        c = s.next_sig(e + 1)
                        endpos = toks[c][2] if (c is not None and s.s(c) == ";") else toks[e][2]
                        dels.append((t[1], endpos, "R-dbg"))
                elif w == "const":
                    a = s.next_sig(i + 1)
                    if a is not None and s.s(a) == "{":
                        e = s.match(a)
                        c = s.next_sig(e + 1)
                        endpos = toks[c][2] if (c is not None and s.s(c) == ";") else toks[e][2]
                        dels.append((t[1], endpos, "R-const"))
        for a, b, rule in sorted(dels, reverse=True):
            la, ca = self.pos_to_line(a)
            lb, cb = self.pos_to_line(b)
            self.log.append("%s: deleted `%s` (%s:%d)" % (rule, " ".join(text[a:b].split())[:100], self.file, self.lines[la].origin[2]))
            head = self.lines[la].text[:ca]
            tail = self.lines[lb].text[cb:]
            merged = head + tail
            origin = self.lines[la].origin
            self.lines[la:lb + 1] = [Line(merged, origin)] if merged.strip() else []
        # R-iter
        for l in self.lines:
            m = re.match(r"^(\s*(?:'\w+:\s*)?for\s+.+?\s+in\s+)&mut\s+([A-Za-z_][\w\.]*)(\s*\{\s*)$", l.text)
            if m:
                l.text = "%s%s.iter_mut()%s" % (m.group(1), m.group(2), m.group(3))
                self.log.append("R-iter: `for .. in &mut %s` => `.iter_mut()` (%s:%d)" % (m.group(2), self.file, l.origin[2]))
                continue
            m = re.match(r"^(\s*(?:'\w+:\s*)?for\s+.+?\s+in\s+)&([A-Za-z_][\w\.]*)(\s*\{\s*)$", l.text)
            if m:
                l.text = "%s%s.iter()%s" % (m.group(1), m.group(2), m.group(3))
                self.log.append("R-iter: `for .. in &%s` => `.iter()` (%s:%d)" % (m.group(2), self.file, l.origin[2]))

    # ----- loops
    def loop_headers(self):
        """[(kw_pos, brace_pos)] for each loop (while/loop/for) inside the fn body in source order"""
        text = self.joined()
        s = Src(text)
        bo, bc = self.body_open_pos()
        res = []
        toks = s.toks
        for i, t in enumerate(toks):
            if t[0] == "id" and t[1] > bo and s.s(i) in ("while", "loop", "for"):
                # `for` in `for<'a>` HRTB or `impl X for Y` cannot occur inside bodies except closures types; accept
                j = i + 1
                ok = None
                while j < len(toks):
                    tj = toks[j]
                    if tj[0] == "p":
                        ch = text[tj[1]]
                        if ch == "{":
                            ok = j; break
                        if ch in "([":
                            j = s.match(j)
                        elif ch in ";}":
                            break
                    j += 1
                if ok is not None:
                    # struct-literal-free loop headers are guaranteed by rustc's grammar
                    res.append((t[1], toks[ok][1]))
        return res

    def op_loop(self, n, block, origin):
        hs = self.loop_headers()
        if len(hs) < n:
            raise Undecided("lost-anchor loop %d in %s (found %d loops)" % (n, self.label(), len(hs)))
        kw, br = hs[n - 1]
        li, col = self.pos_to_line(br)
        l = self.lines[li]
        head, tail = l.text[:col], l.text[col:]
        new = [Line(head, l.origin)] + self.spec_lines(block, origin) + [Line(tail, l.origin)]
        self.lines[li:li + 1] = new

    def op_insert(self, mode, pat, k, block, origin):
        pos = self.occurrence(pat, k, mode)
        if mode == "before":
            li, _ = self.pos_to_line(pos)
            self.lines[li:li] = self.spec_lines(block, origin)
        elif mode == "afterline":
            li, _ = self.pos_to_line(pos + len(pat) - 1)
            self.lines[li + 1:li + 1] = self.spec_lines(block, origin)
        elif mode == "after":
            text = self.joined()
            s = Src(text)
            # token containing pos
            ti = next(i for i, t in enumerate(s.toks) if t[1] <= pos < t[2])
            j = ti
            endpos = None
            while j < len(s.toks):
                t = s.toks[j]
                if t[0] == "p":
                    ch = text[t[1]]
                    if ch in "([{":
                        j = s.match(j)
                    elif ch == ";":
                        endpos = t[2]; break
                    elif ch in ")]}":
                        endpos = t[1]; break   # enclosing block closes: insert before the closer
                j += 1
            if endpos is None:
                raise Undecided("lost-anchor after %r in %s" % (pat, self.label()))
            li, col = self.pos_to_line(endpos)
            l = self.lines[li]
            if l.text[col:].strip() == "":
                self.lines[li + 1:li + 1] = self.spec_lines(block, origin)
            else:
                head, tail = l.text[:col], l.text[col:]
                self.lines[li:li + 1] = [Line(head, l.origin)] + self.spec_lines(block, origin) + [Line(tail, l.origin)]

    def top_statements(self):
        """[(start_pos, end_pos)] of the top-level statements of the fn body (joined-text positions).
        Block-like statements (if/match/while/for/loop/unsafe/{) end at their closing brace."""
        text = self.joined()
        s = Src(text)
        bo, bc = self.body_open_pos()
        toks = s.toks
        i = next(k for k, t in enumerate(toks) if t[1] == bo) + 1
        end = next(k for k, t in enumerate(toks) if t[1] == bc)
        stmts = []
        while True:
            i = s.next_sig(i, end)
            if i is None:
                break
            start = i
            w = s.s(i)
            j = i
            if toks[i][0] == "life":     # label
                j = s.next_sig(i + 1, end); j = s.next_sig(j + 1, end); w = s.s(j)
            if w in ("if", "match", "while", "for", "loop", "unsafe", "{", "proof"):
                # consume to the closing brace of the block chain
                while True:
                    while j < end and not (toks[j][0] == "p" and text[toks[j][1]] == "{"):
                        if toks[j][0] == "p" and text[toks[j][1]] in "([":
                            j = s.match(j)
                        j += 1
                    if j >= end: break
                    j = s.match(j)
                    nx = s.next_sig(j + 1, end)
                    if nx is not None and s.s(nx) == "else":
                        j = nx + 1
                        continue
                    break
                nx = s.next_sig(j + 1, end)
                if nx is not None and s.s(nx) in (".", "?", ";") or (nx is not None and s.s(nx) == "as"):
                    # expression continues: fall through to `;` search
                    pass
                else:
                    stmts.append((toks[start][1], toks[min(j, end - 1)][2]))
                    i = j + 1
                    continue
            # ordinary statement: up to `;` at depth 0
            while j < end:
                tj = toks[j]
                if tj[0] == "p":
                    ch = text[tj[1]]
                    if ch in "([{":
                        j = s.match(j)
                    elif ch == ";":
                        break
                j += 1
            stmts.append((toks[start][1], toks[min(j, end - 1)][2]))
            i = j + 1
        return stmts

    def op_stmt(self, mode, n, block, origin):
        st = self.top_statements()
        idx = n - 1 if n > 0 else len(st) + n
        if not (0 <= idx < len(st)):
            raise Undecided("lost-anchor %s %d in %s (%d statements)" % (mode, n, self.label(), len(st)))
        a, b = st[idx]
        if mode == "beforestmt":
            li, _ = self.pos_to_line(a)
            self.lines[li:li] = self.spec_lines(block, origin)
        else:
            li, _ = self.pos_to_line(b - 1)
            self.lines[li + 1:li + 1] = self.spec_lines(block, origin)

    def op_entry(self, block, origin):
        bo, _ = self.body_open_pos()
        li, col = self.pos_to_line(bo)
        l = self.lines[li]
        head, tail = l.text[:col + 1], l.text[col + 1:]
        new = [Line(head, l.origin)] + self.spec_lines(block, origin)
        if tail.strip():
            new.append(Line(tail, l.origin))
        self.lines[li:li + 1] = new

    def op_exit(self, block, origin):
        _, bc = self.body_open_pos()
        li, col = self.pos_to_line(bc)
        l = self.lines[li]
        head, tail = l.text[:col], l.text[col:]
        new = ([Line(head, l.origin)] if head.strip() else []) + self.spec_lines(block, origin) + [Line(tail, l.origin)]
        self.lines[li:li + 1] = new

    def op_spec(self, block, origin):
        bo, _ = self.body_open_pos()
        li, col = self.pos_to_line(bo)
        l = self.lines[li]
        head, tail = l.text[:col], l.text[col:]
        mark = lambda s: [Line("// @@SPEC-%s@@ %s" % (s, self.emitted_name()), ("spec", "canary", 0))]
        self.lines[li:li + 1] = [Line(head, l.origin)] + mark("BEGIN") + self.spec_lines(block, origin) + mark("END") + [Line(tail, l.origin)]

    def emitted_name(self):
        return getattr(self, "newname", None) or self.fname

    def op_attr(self, block, origin):
        self.lines[0:0] = self.spec_lines(block, origin)

    def op_ret(self, name):
        bo, _ = self.body_open_pos()
        text = self.joined()
        sig = text[:bo]
        s = Src(sig)
        # find top-level `->` (outside parens) -- last one at depth 0
        arrow = None
        j = 0
        while j < len(s.toks):
            t = s.toks[j]
            if t[0] == "p":
                ch = sig[t[1]]
                if ch in "([":
                    j = s.match(j)
                elif ch == "-" and sig.startswith("->", t[1]):
                    arrow = t[1]
                    break
            j += 1
        if arrow is None:
            raise Undecided("ret-no-arrow %s" % self.label())
        # return type extends to `where` at depth 0 or end of sig
        rest = sig[arrow + 2:]
        m = re.search(r"\bwhere\b", rest)
        tyend = arrow + 2 + (m.start() if m else len(rest))
        ty = sig[arrow + 2:tyend]
        newsig = sig[:arrow] + "-> (" + name + ": " + ty.strip() + ")" + (" " if not ty.endswith("\n") else "\n") + sig[tyend:]
        if "\n" in ty.strip():
            raise Undecided("ret-multiline-type %s" % self.label())
        self._replace_span(0, bo, newsig)
        self.log.append("R-ret: result of %s named `%s`" % (self.label(), name))

    def _replace_span(self, a, b, newtext):
        la, ca = self.pos_to_line(a)
        lb, cb = self.pos_to_line(b)
        head = self.lines[la].text[:ca]
        tail = self.lines[lb].text[cb:]
        pieces = (head + newtext + tail).split("\n")
        origin0 = self.lines[la].origin
        newlines = []
        for i, p in enumerate(pieces):
            org = self.lines[min(la + i, lb)].origin
            newlines.append(Line(p, org))
        self.lines[la:lb + 1] = newlines

    def op_replace(self, pat, k, newtext, sig_only=False):
        occ = self.occurrence(pat, k, "replace")
        occs = occ if isinstance(occ, list) else [occ]
        if sig_only:
            bo, _ = self.body_open_pos()
            occs = [o for o in occs if o < bo]
            if not occs:
                raise Undecided("lost-anchor sigreplace %r in %s" % (pat, self.label()))
        for o in sorted(occs, reverse=True):
            li, _ = self.pos_to_line(o)
            self.log.append("R-expr: `%s` => `%s` (%s:%d)" % (pat, newtext, self.file, self.lines[li].origin[2]))
            self._replace_span(o, o + len(pat), newtext)

    def op_rename(self, new):
        text = self.joined()
        m = re.search(r"\bfn\s+" + re.escape(self.fname) + r"\b", text)
        if not m:
            raise Undecided("rename-failed %s" % self.label())
        self._replace_span(m.start(), m.end(), "fn " + new)
        self.log.append("R-default/rename: %s emitted as `%s`" % (self.label(), new))

    def op_idxloop(self, n, k):
        hs = self.loop_headers()
        if len(hs) < n:
            raise Undecided("lost-anchor idxloop %d in %s" % (n, self.label()))
        kw, br = hs[n - 1]
        text = self.joined()
        header = text[kw:br]
        m = re.match(r"^for\s+(.+?)\s+in\s+(.+?)\s*$", header, re.S)
        if not m:
            raise Undecided("idxloop-not-for %s loop %d" % (self.label(), n))
        pat, expr = m.group(1).strip(), " ".join(m.group(2).split())
        enum = False
        if expr.endswith(".enumerate()"):
            enum = True; expr = expr[:-len(".enumerate()")]
        if expr.endswith(".iter_mut()"):
            coll, mut = expr[:-len(".iter_mut()")], True
        elif expr.endswith(".iter()"):
            coll, mut = expr[:-len(".iter()")], False
        elif expr.startswith("&mut "):
            coll, mut = expr[5:].strip(), True
        elif expr.startswith("&"):
            coll, mut = expr[1:].strip(), False
        else:
            raise Undecided("idxloop-unsupported-iterator %s `%s`" % (self.label(), expr))
        # body range
        s = Src(text)
        ti = next(i for i, t in enumerate(s.toks) if t[1] == br)
        close = s.toks[s.match(ti)][1]
        body = text[br + 1:close]
        # refuse unlabelled continue directly in this loop body (would skip k += 1)
        bs = Src(body)
        depth_loops = []
        j = 0
        inner = [(a, b) for a, b in [(h[0] - br - 1, None) for h in hs if br < h[0] < close]]
        inner_ranges = []
        for h in hs:
            if br < h[0] < close:
                tj = next(i for i, t in enumerate(s.toks) if t[1] == h[1])
                inner_ranges.append((h[1], s.toks[s.match(tj)][1]))
        for m2 in re.finditer(r"\bcontinue\b(?!\s*')", text[br:close]):
            p = br + m2.start()
            if not any(a < p < b for a, b in inner_ranges):
                raise Undecided("idxloop-unlabelled-continue %s" % self.label())
        elem = "&mut %s[%s]" % (coll, k) if mut else "&%s[%s]" % (coll, k)
        if enum:
            bind = "let %s = (%s, %s);" % (pat, k, elem)
        else:
            bind = "let %s = %s;" % (pat, elem)
        li_kw, col_kw = self.pos_to_line(kw)
        indent = re.match(r"\s*", self.lines[li_kw].text).group(0)
        label = self.lines[li_kw].text[:col_kw]
        # closing brace: insert `k += 1;` before
        lc, cc = self.pos_to_line(close)
        self.lines[lc:lc] = [Line(indent + "    %s += 1;" % k, self.lines[lc].origin)]
        # header replace
        lb, cb = self.pos_to_line(br)
        org = self.lines[li_kw].origin
        tail = self.lines[lb].text[cb + 1:]
        new = [Line(indent + "let mut %s: usize = 0;" % k, org),
               Line(label + "while %s < %s.len() {" % (k, coll), org),
               Line(indent + "    " + bind, org)]
        if tail.strip():
            new.append(Line(tail, org))
        self.lines[li_kw:lb + 1] = new
        self.log.append("R-idx: `for %s in %s` rewritten as index loop over `%s` (%s:%d)" % (pat, m.group(2).strip(), k, self.file, org[2]))

    def op_assert2panic(self):
        text = self.joined()
        s = Src(text)
        reps = []
        for i, t in enumerate(s.toks):
            if t[0] == "id" and s.s(i) in ("assert",):
                a = s.next_sig(i + 1)
                if a is not None and s.s(a) == "!":
                    b = s.next_sig(a + 1)
                    e = s.match(b)
                    # first top-level comma
                    j = b + 1; comma = None
                    while j < e:
                        tj = s.toks[j]
                        if tj[0] == "p":
                            ch = text[tj[1]]
                            if ch in "([{": j = s.match(j)
                            elif ch == ",": comma = tj[1]; break
                        j += 1
                    cond = text[s.toks[b][2]:(comma if comma is not None else s.toks[e][1])]
                    reps.append((t[1], s.toks[e][2], "if !(%s) { vpanic() }" % " ".join(cond.split())))
        for a, b, new in sorted(reps, reverse=True):
            li, _ = self.pos_to_line(a)
            self.log.append("R-panic: assert!(..) => `%s` (%s:%d)" % (new[:80], self.file, self.lines[li].origin[2]))
            self._replace_span(a, b, new)


def read_spec(path):
    if not os.path.exists(path):
        raise Undecided("missing-spec %s" % path)
    return open(path, encoding="utf-8").read().split("\n")

BLOCK_OPS = {"attr", "spec", "entry", "exit", "loop", "before", "afterline", "after"}

def assemble(unit_path, repo, defines=()):
    """returns dict(meta, lines=[Line], log=[..], functions=[{label, sha, ...}])"""
    meta = {"unit": None, "serves": [], "level": "proved-unbounded", "notes": []}
    out = []
    log = []
    functions = []
    fn_regions = []   # (first_out_line, last_out_line, label, fname)

    def process(path, depth=0):
        lines = read_spec(path)
        rel = os.path.relpath(path, VERIF)
        # conditional text: //@ifdef NAME / //@ifndef NAME / //@else / //@endif (used for known-finding witness variants)
        kept, stack = [], []
        for ln, raw in enumerate(lines):
            st = raw.strip()
            if st.startswith("//@ifdef ") or st.startswith("//@ifndef "):
                name = st.split(None, 1)[1].strip()
                cond = (name in defines) if st.startswith("//@ifdef ") else (name not in defines)
                stack.append(cond); kept.append("")
            elif st == "//@else" and stack:
                stack[-1] = not stack[-1]; kept.append("")
            elif st == "//@endif" and stack:
                stack.pop(); kept.append("")
            else:
                kept.append(raw if all(stack) else "")
        if stack:
            raise Undecided("spec-syntax %s: unbalanced //@ifdef" % rel)
        lines = kept
        i = 0
        while i < len(lines):
            raw = lines[i]
            st = raw.strip()
            if not st.startswith("//@"):
                out.append(Line(raw, ("spec", rel, i + 1)))
                i += 1
                continue
            parts = st[3:].split(None, 1)
            d = parts[0] if parts else ""
            arg = parts[1] if len(parts) > 1 else ""
            if d == "unit": meta["unit"] = arg.strip()
            elif d == "serves": meta["serves"] = arg.split()
            elif d == "level": meta["level"] = arg.strip()
            elif d == "note": meta["notes"].append(arg.strip())
            elif d == "unreachable-exit": meta.setdefault("unreachable_exit", []).extend(arg.split())   # exits (fn#retK / fn#tail) that are legitimately unreachable
            elif d == "verus-flags": meta.setdefault("verus_flags", []).extend(arg.split())   # extra verus command-line flags for this unit
            elif d == "include":
                process(os.path.join(os.path.dirname(path), arg.strip()), depth + 1)
            elif d == "item":
                fu = FnUnit(repo, arg, rel, i + 1)
                fu.auto_rules()
                if fu.kind == "fn" and fu.item.tbody_open is not None:
                    fu.op_entry(["// @@CANARY-ENTRY@@ " + fu.fname], (rel, i + 1))
                start = len(out)
                out.extend(fu.lines)
                log.extend(fu.log)
                functions.append({"item": fu.label(), "kind": fu.kind, "sha256_16": fu.raw_sha, "repo_line": fu.start_line})
                if fu.kind == "fn":
                    fn_regions.append((start, len(out) - 1, fu.label(), fu.fname))
            elif d == "fn":
                fu = FnUnit(repo, arg, rel, i + 1)
                if fu.kind != "fn":
                    raise Undecided("not-a-fn %s" % arg)
                ops = []
                i += 1
                while i < len(lines) and lines[i].strip() != "//@end":
                    s2 = lines[i].strip()
                    if s2.startswith("//@"):
                        p2 = s2[3:].split(None, 1)
                        ops.append([p2[0], p2[1] if len(p2) > 1 else "", [], i + 1])
                    else:
                        if not ops:
                            if s2:
                                raise Undecided("spec-syntax %s:%d text before first op" % (rel, i + 1))
                        else:
                            ops[-1][2].append(lines[i])
                    i += 1
                if i >= len(lines):
                    raise Undecided("spec-syntax %s: missing //@end" % rel)
                keepdebug = any(o[0] == "keepdebug" for o in ops)
                fu.auto_rules(keepdebug=keepdebug)
                # order: structural rewrites first (replace, idxloop, assert2panic), then ret, then insertions
                newname = None
                for o in ops:
                    if o[0] in ("replace", "replace?"):
                        pat, k, rest = parse_pat(o[1])
                        if not rest.startswith("=>"): raise Undecided("spec-syntax replace %s:%d" % (rel, o[3]))
                        if o[0] == "replace?" and not find_code_occurrences(fu.joined(), pat):
                            fu.log.append("R-expr (optional): pattern `%s` not present in %s, nothing to rewrite" % (pat, fu.label()))
                            continue
                        fu.op_replace(pat, k, unq(rest[2:]))
                    elif o[0] == "sigreplace":
                        pat, k, rest = parse_pat(o[1])
                        fu.op_replace(pat, k, unq(rest[2:]), sig_only=True)
                    elif o[0] == "assert2panic":
                        fu.op_assert2panic()
                for o in ops:
                    if o[0] == "idxloop":
                        n, k = o[1].split()
                        fu.op_idxloop(int(n), k)
                for o in ops:
                    if o[0] == "ret": fu.op_ret(o[1].strip())
                    elif o[0] == "name": newname = o[1].strip()
                if newname:
                    fu.op_rename(newname)
                # insertions anchored by pattern / loops: apply in reverse file order is not needed because each op re-searches
                # structural (statement-ordinal) anchors first, computed on the text before any insertion, last statement first
                nst = len(fu.top_statements()) if any(o[0] in ("beforestmt", "afterstmt", "beforetail") for o in ops) else 0
                def stmt_key(o):
                    n = -1 if o[0] == "beforetail" else int(o[1].strip())
                    return n - 1 if n > 0 else nst + n
                for o in sorted([o for o in ops if o[0] in ("beforestmt", "afterstmt", "beforetail")], key=lambda o: (-stmt_key(o), o[0] != "afterstmt")):
                    mode = "afterstmt" if o[0] == "afterstmt" else "beforestmt"
                    fu.op_stmt(mode, stmt_key(o) + 1, o[2], (rel, o[3] + 1))
                for o in ops:
                    d2, a2, block, ln = o
                    origin = (rel, ln + 1)
                    if d2 in ("before", "afterline", "after"):
                        pat, k, _ = parse_pat(a2)
                        fu.op_insert(d2, pat, k, block, origin)
                # loops: apply from the last to the first so ordinals stay valid
                for o in sorted([o for o in ops if o[0] == "loop"], key=lambda o: -int(o[1].split()[0])):
                    fu.op_loop(int(o[1].split()[0]), o[2], (rel, o[3] + 1))
                for o in ops:
                    if o[0] == "exit": fu.op_exit(o[2], (rel, o[3] + 1))
                for o in ops:
                    if o[0] == "entry": fu.op_entry(o[2], (rel, o[3] + 1))
                is_external = any(o[0] == "attr" and any("external_body" in x for x in o[2]) for o in ops)
                if not is_external:
                    # vacuity-canary marker: first thing in the body (a comment; replaced by `assert(false)` in the canary run)
                    fu.op_entry(["// @@CANARY-ENTRY@@ " + (newname or fu.fname)], (rel, fu.specline))
                fu.newname = newname
                specblock = []
                specorigin = (rel, fu.specline)
                for o in ops:
                    if o[0] == "spec":
                        specblock += o[2]; specorigin = (rel, o[3] + 1)
                if not is_external:
                    fu.op_spec(specblock, specorigin)     # always emitted (possibly empty) so that the exit canary finds the place
                elif specblock:
                    fu.op_spec(specblock, specorigin)
                for o in ops:
                    if o[0] == "attr": fu.op_attr(o[2], (rel, o[3] + 1))
                known = {"replace", "replace?", "sigreplace", "assert2panic", "idxloop", "ret", "name", "before", "afterline", "after",
                         "loop", "exit", "entry", "spec", "attr", "keepdebug", "beforestmt", "afterstmt", "beforetail"}
                for o in ops:
                    if o[0] not in known:
                        raise Undecided("spec-syntax unknown op %s at %s:%d" % (o[0], rel, o[3]))
                start = len(out)
                out.extend(fu.lines)
                log.extend(fu.log)
                functions.append({"item": fu.label(), "kind": "fn", "sha256_16": fu.raw_sha, "repo_line": fu.start_line,
                                  "emitted_as": newname or fu.fname})
                fn_regions.append((start, len(out) - 1, fu.label(), newname or fu.fname))
            else:
                raise Undecided("spec-syntax unknown directive %s at %s:%d" % (d, rel, i + 1))
            i += 1

    process(unit_path)
    if not meta["unit"]:
        meta["unit"] = os.path.splitext(os.path.basename(unit_path))[0]
    return {"meta": meta, "lines": out, "log": log, "functions": functions, "fn_regions": fn_regions}

TRUST_PATTERNS = [
    ("external_body", re.compile(r"#\[verifier::external_body\]")),
    ("assume_specification", re.compile(r"\bassume_specification\b")),
    ("external_type_specification", re.compile(r"external_type_specification")),
    ("external_trait_specification", re.compile(r"external_trait_specification")),
    ("assume", re.compile(r"\bassume\s*\(")),
    ("admit", re.compile(r"\badmit\s*\(")),
    ("uninterp", re.compile(r"\buninterp\s+spec\s+fn\b")),
    ("axiom", re.compile(r"\baxiom\b|broadcast\s+axiom")),
]

def trusted_scan(lines):
    found = []
    for idx, l in enumerate(lines):
        code = l.text.split("//")[0]
        for name, rx in TRUST_PATTERNS:
            if rx.search(code):
                # describe with the next line holding fn/struct name
                ctx = code.strip()
                for j in range(idx, min(idx + 4, len(lines))):
                    m = re.search(r"\b(fn|struct|trait|spec fn)\s+[\w:<>\[\], ]+", lines[j].text)
                    if m:
                        ctx = " ".join(lines[j].text.split())[:140]; break
                if name == "assume_specification":
                    ctx = " ".join(l.text.split())[:160]
                found.append("%s: %s" % (name, ctx))
    # de-duplicate, keep order
    seen, res = set(), []
    for f in found:
        if f not in seen:
            seen.add(f); res.append(f)
    return res

def enclosing_fn(lines, idx):
    for j in range(min(idx, len(lines) - 1), -1, -1):   # a span may point into another file (vstd): clamp
        m = re.search(r"\bfn\s+(\w+)", lines[j].text.split("//")[0])
        if m and not lines[j].text.strip().startswith(("requires", "ensures", "invariant")):
            return m.group(1)
    return "?"

def run_verus(path, rlimit=None, extra=None, timeout=600):
    cmd = ["verus", path, "--output-json", "--time-expanded", "--error-format=json", "--multiple-errors", "4"]
    if rlimit:
        cmd += ["--rlimit", str(rlimit)]
    if extra:
        cmd += extra
    t0 = time.time()
    try:
        p = subprocess.run(cmd, stdout=subprocess.PIPE, stderr=subprocess.PIPE, text=True, timeout=timeout,
                           cwd=os.path.dirname(path))
    except subprocess.TimeoutExpired:
        return {"timeout": True, "wall": time.time() - t0, "cmd": " ".join(cmd)}
    wall = time.time() - t0
    res = {"rc": p.returncode, "wall": wall, "cmd": " ".join(cmd), "stderr": p.stderr, "stdout": p.stdout}
    try:
        res["json"] = json.loads(p.stdout)
    except Exception:
        res["json"] = None
    diags = []
    for ln in p.stderr.split("\n"):
        ln = ln.strip()
        if ln.startswith("{"):
            try:
                diags.append(json.loads(ln))
            except Exception:
                pass
    res["diags"] = diags
    return res

def classify_diag(d):
    msg = d.get("message", "")
    if d.get("level") != "error":
        return None
    if msg.startswith("aborting due to"):
        return None
    low = msg.lower()
    if "rlimit" in low or "resource limit" in low:
        return "rlimit"
    return "error"

def check_unit(unit, repo="/repo", workdir=None, rlimit=None, keep=False, canary=True, defines=()):
    """Assemble and verify one unit.  Returns a result dict."""
    unit_path = unit if os.path.isabs(unit) else os.path.join(SPECDIR, unit + ".vspec")
    t0 = time.time()
    r = {"unit": os.path.splitext(os.path.basename(unit_path))[0], "backend": "verus", "status": None, "failed": [], "log": [],
         "functions": [], "obligations": 0, "discharged": 0, "trusted_base": [], "smt_ms": 0}
    try:
        asm = assemble(unit_path, repo, defines)
    except Undecided as e:
        r["status"] = "undecided"; r["reason"] = str(e); r["wall_s"] = time.time() - t0
        return r
    except (LexError, LocateError) as e:
        r["status"] = "undecided"; r["reason"] = "extract-error %s" % e; r["wall_s"] = time.time() - t0
        return r
    meta = asm["meta"]
    r["unit"] = meta["unit"]; r["serves"] = meta["serves"]; r["level"] = meta["level"]; r["notes"] = meta["notes"]
    r["log"] = asm["log"]; r["functions"] = asm["functions"]
    workdir = workdir or os.path.join("/tmp", "verif-vx-%d" % os.getpid())
    os.makedirs(workdir, exist_ok=True)
    fpath = os.path.join(workdir, meta["unit"] + ("__" + "_".join(defines) if defines else "") + ".rs")
    text = "\n".join(l.text for l in asm["lines"]) + "\n"
    open(fpath, "w").write(text)
    r["assembled"] = fpath
    r["assembled_sha256_16"] = hashlib.sha256(text.encode()).hexdigest()[:16]
    r["trusted_base"] = trusted_scan(asm["lines"])
    res = run_verus(fpath, rlimit=rlimit, extra=meta.get("verus_flags"))
    r["checker_cmd"] = res.get("cmd")
    if res.get("timeout"):
        r["status"] = "undecided"; r["reason"] = "verus-timeout"; r["wall_s"] = time.time() - t0
        return r
    js = res.get("json")
    lines = asm["lines"]
    def origin_str(line_no):
        if 1 <= line_no <= len(lines):
            o = lines[line_no - 1].origin
            return "%s:%d" % (o[1], o[2]) if o[0] == "repo" else "%s:%d" % (o[1], o[2])
        return "?"
    def fn_of(line_no):
        for a, b, label, fname in asm["fn_regions"]:
            if a <= line_no - 1 <= b:
                return fname, label
        return enclosing_fn(lines, line_no - 1), None
    fails, rlimits = [], []
    for d in res.get("diags", []):
        c = classify_diag(d)
        if c is None:
            continue
        spans = d.get("spans", [])
        prim = [s for s in spans if s.get("is_primary")] or spans
        sec = [s for s in spans if not s.get("is_primary")]
        entry = {"message": d["message"], "rendered": d.get("rendered", "")[:2000]}
        if prim:
            p = prim[0]
            clause = " ".join(("".join(t["text"][t["highlight_start"] - 1:t["highlight_end"] - 1] if i == 0 else t["text"].strip() for i, t in enumerate(p.get("text", [])[:3]))).split())[:160]
            entry["clause"] = clause
            entry["at"] = origin_str(p["line_start"])
            # the function the failure belongs to: prefer the non-primary span inside an extracted fn
            where = None
            for s in sec + prim:
                f, lab = fn_of(s["line_start"])
                if lab is not None:
                    where = (f, lab, origin_str(s["line_start"])); break
            if where is None:
                f, lab = fn_of(p["line_start"])
                where = (f, lab, origin_str(p["line_start"]))
            entry["fn"] = where[0]; entry["repo_item"] = where[1]; entry["code_at"] = where[2]
            kind = re.sub(r"[^a-z]+", "-", d["message"].lower()).strip("-")[:40]
            entry["obligation"] = "%s::%s::%s[%s]" % (meta["unit"], where[0], kind, clause[:80])
        else:
            entry["obligation"] = "%s::?::%s" % (meta["unit"], d["message"][:60])
        (rlimits if c == "rlimit" else fails).append(entry)
    fb = []
    if js:
        try:
            for m in js["times-ms"]["smt"]["smt-run-module-times"]:
                fb.extend(m.get("function-breakdown", []))
            r["smt_ms"] = js["times-ms"]["smt"]["total"]
        except Exception:
            pass
        vr = js.get("verification-results", {})
        r["verified_fns"] = vr.get("verified", 0)
        r["error_fns"] = vr.get("errors", 0)
    r["function_results"] = [{"function": f["function"].split("::", 1)[-1], "mode": f.get("mode:"), "ms": f.get("time"), "ok": f.get("success")} for f in fb if f.get("mode:") in ("exec", "proof")]
    # every exec-mode function Verus checked must be text extracted from the repository (a hand-written body would be a model)
    emitted = set(fname for _, _, _, fname in asm["fn_regions"])
    r["handwritten_exec"] = sorted(set(f["function"].split("::")[-1] for f in fb if f.get("mode:") == "exec") - emitted
                                   - {"clone", "eq", "ne", "cmp", "partial_cmp", "default"})   # #[derive(..)]-generated
    r["obligations"] = (r.get("verified_fns", 0) or 0) + (r.get("error_fns", 0) or 0)
    r["discharged"] = r.get("verified_fns", 0) or 0
    vr = (js or {}).get("verification-results", {})
    if js is None:
        r["status"] = "undecided"; r["reason"] = "verus produced no result: " + res.get("stderr", "")[-400:]
    elif vr.get("encountered-vir-error") or (vr.get("encountered-error") and not vr.get("errors")):
        # rustc / VIR error: the assembled text is not accepted by the tool -> not a verdict about the property
        r["status"] = "undecided"
        r["reason"] = "rustc/verus error in assembled text: " + "; ".join(e["message"] + " @" + e.get("at", "?") for e in fails[:3])
        r["compile_errors"] = fails[:5]
    elif vr.get("errors"):
        if fails:
            r["status"] = "violation"; r["failed"] = fails
        else:
            r["status"] = "undecided"; r["reason"] = "rlimit: " + "; ".join(e.get("obligation", "?") for e in rlimits[:3])
    elif vr.get("success") and r["discharged"] > 0:
        r["status"] = "pass"
    else:
        r["status"] = "undecided"; r["reason"] = "no obligations or unknown failure: " + res.get("stderr", "")[-400:]
    if r["status"] == "pass" and r["handwritten_exec"]:
        r["status"] = "undecided"; r["reason"] = "unit verifies executable code that was not extracted from the repository: " + ", ".join(r["handwritten_exec"])
    # ---- vacuity canary: `assert(false)` at the entry of every extracted function must FAIL
    if canary and r["status"] == "pass":
        cl = list(lines)
        ctext = []
        canary_lines = {}
        inserts = []
        for idx, l in enumerate(cl):
            if l.text.strip().startswith("// @@CANARY-ENTRY@@"):
                fname = l.text.strip().split("@@ ", 1)[1].strip() if "@@ " in l.text else "?"
                inserts.append((idx, 0, fname))
                cl[idx] = Line("proof { assert(false); } // CANARY " + fname, ("spec", "canary", 0))
        cpath = os.path.join(workdir, meta["unit"] + "__canary.rs")
        open(cpath, "w").write("\n".join(l.text for l in cl) + "\n")
        cres = run_verus(cpath, rlimit=rlimit, extra=meta.get("verus_flags"))
        hit = set()
        ctext = open(cpath).read().split("\n")
        for d in cres.get("diags", []):
            if d.get("level") == "error" and "assertion failed" in d.get("message", ""):
                for s in d.get("spans", []):
                    lno = s["line_start"]
                    if 1 <= lno <= len(ctext) and "// CANARY" in ctext[lno - 1]:
                        hit.add(ctext[lno - 1].split("// CANARY ")[1].strip())
        expected = [f for _, _, f in inserts]
        missing = [f for f in expected if f not in hit]
        r["canary"] = {"expected": len(expected), "failed_as_expected": len([f for f in expected if f in hit]), "vacuous": missing}
        cvr = (cres.get("json") or {}).get("verification-results", {})
        if cres.get("json") is None or cvr.get("encountered-vir-error") or (cvr.get("encountered-error") and not cvr.get("errors")):
            r["status"] = "undecided"; r["reason"] = "canary-tool-error: the canary file was not accepted by rustc/Verus (not a vacuity verdict)"
            r["canary"]["tool_error"] = True
        elif missing:
            r["status"] = "undecided"; r["reason"] = "vacuous-precondition (canary assert(false) verified) in: " + ", ".join(missing)
        if not keep:
            try: os.remove(cpath)
            except OSError: pass
    # ---- exit canary: `assert(false)` in front of every `return` and of the tail of every extracted function must FAIL
    # (an exit where it verifies is unreachable or is checked in an inconsistent solver context -- this guard was added after
    # a Z3 `smt.arith.solver=2` unsoundness was observed on `x / nz.get()`, see DESIGN.md section 8)
    if canary and r["status"] == "pass":
        text_lines = [l.text for l in lines]
        edits = []      # (line_idx, col_start, col_end_or_None, replacement) applied bottom-up
        exits = []
        for (ra, rb, label, fname) in asm["fn_regions"]:
            ent = next((i for i in range(ra, rb + 1) if text_lines[i].strip().startswith("// @@CANARY-ENTRY@@")), None)
            if ent is None:
                continue
            body = "\n".join(text_lines[ent + 1:rb + 1])
            try:
                s = Src("{" + body)      # re-open the body brace so that brackets balance
            except Exception:
                continue
            off = -1                     # positions in s.text are shifted by the added "{"
            toks = s.toks
            close = s.match(0)
            def pos2lc(pos):
                pos += off
                pre = body[:pos]
                return ent + 1 + pre.count("\n"), pos - (pre.rfind("\n") + 1)
            # ghost regions (proof blocks) are skipped
            skip_until = -1
            n_exit = 0
            for i, tk in enumerate(toks):
                if i <= skip_until or tk[0] != "id":
                    continue
                w = s.s(i)
                if w == "proof":
                    nx = s.next_sig(i + 1)
                    if nx is not None and s.s(nx) == "{":
                        skip_until = s.match(nx)
                    continue
                if w == "return":
                    j = i + 1
                    endpos = None
                    while j < close:
                        tj = toks[j]
                        if tj[0] == "p":
                            ch = s.text[tj[1]]
                            if ch in "([{": j = s.match(j)
                            elif ch in ";,": endpos = tj[1]; break
                            elif ch in ")]}": endpos = tj[1]; break
                        j += 1
                    if endpos is None:
                        endpos = toks[close][1]
                    n_exit += 1
                    tag = "%s#ret%d" % (fname, n_exit)
                    l1, c1 = pos2lc(tk[1]); l2, c2 = pos2lc(endpos)
                    edits.append((l2, c2, " }"))
                    edits.append((l1, c1, "{ proof { if verif_canary(%d) { assert(false); /*CANARY-EXIT %s*/ } } " % (len(exits), tag)))
                    exits.append(tag)
            # tail: before the last top-level statement, and at the very end when the body falls off its end
            try:
                # top-level statements of the body
                i = 1; stmts = []
                while True:
                    i = s.next_sig(i, close)
                    if i is None: break
                    start = i; j = i; w = s.s(i)
                    if toks[i][0] == "life":
                        j = s.next_sig(i + 1, close); j = s.next_sig(j + 1, close); w = s.s(j)
                    blocklike = False
                    if w in ("if", "match", "while", "for", "loop", "unsafe", "{", "proof"):
                        while True:
                            while j < close and not (toks[j][0] == "p" and s.text[toks[j][1]] == "{"):
                                if toks[j][0] == "p" and s.text[toks[j][1]] in "([": j = s.match(j)
                                j += 1
                            if j >= close: break
                            j = s.match(j)
                            nx = s.next_sig(j + 1, close)
                            if nx is not None and s.s(nx) == "else":
                                j = nx + 1; continue
                            break
                        nx = s.next_sig(j + 1, close)
                        if not (nx is not None and s.s(nx) in (".", "?", ";", "as")):
                            stmts.append((start, min(j, close - 1), True, w)); i = j + 1; continue
                    semi = False
                    while j < close:
                        tj = toks[j]
                        if tj[0] == "p":
                            ch = s.text[tj[1]]
                            if ch in "([{": j = s.match(j)
                            elif ch == ";": semi = True; break
                        j += 1
                    stmts.append((start, min(j, close - 1), semi, w)); i = j + 1
                real = [st for st in stmts if st[3] != "proof"]
                if real:
                    last = real[-1]
                    tag = "%s#tail" % fname
                    l1, c1 = pos2lc(toks[last[0]][1])
                    edits.append((l1, c1, "proof { if verif_canary(%d) { assert(false); /*CANARY-EXIT %s*/ } } " % (len(exits), tag)))
                    exits.append(tag)
            except Exception:
                pass
        if exits:
            cl = list(text_lines)
            for (li, col, ins) in sorted(edits, key=lambda e: (e[0], e[1]), reverse=True):
                cl[li] = cl[li][:col] + ins + cl[li][col:]
            # each canary is guarded by a distinct uninterpreted flag so that a refuted canary does not poison the rest of the path
            vi = next((i for i, x in enumerate(cl) if re.match(r"^\s*verus!\s*\{", x)), None)
            if vi is not None:
                cl[vi] = cl[vi] + " uninterp spec fn verif_canary(k: int) -> bool;"
            xpath = os.path.join(workdir, meta["unit"] + "__exitcanary.rs")
            open(xpath, "w").write("\n".join(cl) + "\n")
            xres = run_verus(xpath, rlimit=rlimit, extra=(meta.get("verus_flags") or []))
            xjs = xres.get("json") or {}
            xvr = xjs.get("verification-results", {})
            xtext = open(xpath).read().split("\n")
            hit = set()
            for d in xres.get("diags", []):
                if d.get("level") == "error" and "assertion failed" in d.get("message", ""):
                    for sp in d.get("spans", []):
                        lno = sp["line_start"]
                        if 1 <= lno <= len(xtext):
                            # the failing assert is the one whose column range holds the span
                            seg = xtext[lno - 1]
                            for m in re.finditer(r"assert\(false\); /\*CANARY-EXIT ([^*]+)\*/", seg):
                                if m.start() <= sp["column_start"] - 1 <= m.end():
                                    hit.add(m.group(1))
            if xres.get("json") is None or xvr.get("encountered-vir-error") or (xvr.get("encountered-error") and not xvr.get("errors")):
                r["exit_canary"] = {"tool_error": True, "detail": (xres.get("stderr") or "")[-600:]}
                r["status"] = "undecided"; r["reason"] = "exit-canary-tool-error: the exit-canary variant was not accepted by rustc/Verus"
            else:
                # Verus reports a bounded number of errors per function: an exit is only *suspicious* if its function reported
                # fewer failures than the limit and this exit is not among them
                notref = sorted(e for e in exits if e not in hit)
                allow = set(meta.get("unreachable_exit", []))
                per_fn = {}
                for e in hit: per_fn[e.split("#")[0]] = per_fn.get(e.split("#")[0], 0) + 1
                sus = [e for e in notref if e not in allow and per_fn.get(e.split("#")[0], 0) < 4]
                r["exit_canary"] = {"exits": len(exits), "refuted_as_expected": len(exits) - len(notref), "not_refuted": notref,
                                    "declared_unreachable": sorted(allow), "suspicious": sus}
                if sus:
                    r["status"] = "undecided"
                    r["reason"] = "inconsistent-context-or-unreachable-exit (`assert(false)` verified before): " + ", ".join(sus)
            if not keep:
                try: os.remove(xpath)
                except OSError: pass
    r["wall_s"] = round(time.time() - t0, 2)
    if not keep and r["status"] == "pass":
        try: os.remove(fpath)
        except OSError: pass
    return r

if __name__ == "__main__":
    import argparse
    ap = argparse.ArgumentParser()
    ap.add_argument("unit")
    ap.add_argument("--repo", default="/repo")
    ap.add_argument("--keep", action="store_true")
    ap.add_argument("--out", default=None, help="directory for the assembled file")
    ap.add_argument("--no-canary", action="store_true")
    ap.add_argument("--emit-only", action="store_true")
    ap.add_argument("--define", action="append", default=[], help="enable //@ifdef NAME blocks (known-finding witness variants)")
    a = ap.parse_args()
    if a.emit_only:
        asm = assemble(a.unit if os.path.isabs(a.unit) or os.path.exists(a.unit) else os.path.join(SPECDIR, a.unit + ".vspec"), a.repo, tuple(a.define))
        sys.stdout.write("\n".join(l.text for l in asm["lines"]) + "\n")
        sys.exit(0)
    u = a.unit if not os.path.exists(a.unit) else os.path.abspath(a.unit)
    r = check_unit(u, repo=a.repo, workdir=a.out, keep=a.keep, canary=not a.no_canary, defines=tuple(a.define))
    short = {k: v for k, v in r.items() if k not in ("function_results",)}
    print(json.dumps(short, indent=1))
    sys.exit(0 if r["status"] == "pass" else 1 if r["status"] == "violation" else 2)
