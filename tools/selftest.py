#!/usr/bin/env python3
"""selftest.py [--unit U ...] [--prop Cxx] [--backend verus|kani|all] - mutation self-test of the registered units.

For every specs/mutants/<unit>/<name>.patch: copy the current /repo working tree to a scratch directory, apply the patch
(`patch -p1`), run the unit against the copy, and require a *violation* (Verus: failed obligation; Kani: refuted harness).
A mutant that still verifies is reported as MISSED; a mutant that makes the unit undecided (lost anchor, compile error) is
reported as UNDECIDED.  Used by `check.py --tier thorough` and during development.  Never touches /repo.
"""
import argparse, glob, json, os, re, shutil, subprocess, sys, time, concurrent.futures
HERE = os.path.dirname(os.path.abspath(__file__))
sys.path.insert(0, HERE)
import vx, kx
VERIF = os.path.dirname(HERE)
REPO = os.environ.get("VERIF_REPO", "/repo")
ROOT = os.environ.get("VERIF_SELFTEST_SCRATCH", "/tmp/verif-selftest")

def unit_kind(unit):
    if os.path.exists(os.path.join(VERIF, "specs", "verus", unit + ".vspec")): return "verus"
    if os.path.exists(os.path.join(VERIF, "specs", "kani", unit + ".kspec")): return "kani"
    return None

def serves(unit, kind):
    p = os.path.join(VERIF, "specs", kind, unit + (".vspec" if kind == "verus" else ".kspec"))
    m = re.search(r"^//@serves (.*)$", open(p).read(4000), re.M)
    return m.group(1).split() if m else []

def make_copy(tag, patch):
    dst = os.path.join(ROOT, tag)
    if os.path.exists(dst): shutil.rmtree(dst)
    os.makedirs(dst)
    subprocess.run(["rsync", "-a", "--exclude", "/target", "--exclude", "/.git", REPO.rstrip("/") + "/", dst + "/"], check=True)
    p = subprocess.run(["patch", "-p1", "--no-backup-if-mismatch", "-i", patch], cwd=dst, stdout=subprocess.PIPE, stderr=subprocess.STDOUT, text=True)
    if p.returncode != 0:
        # try -p0
        p2 = subprocess.run(["patch", "-p0", "--no-backup-if-mismatch", "-i", patch], cwd=dst, stdout=subprocess.PIPE, stderr=subprocess.STDOUT, text=True)
        if p2.returncode != 0:
            shutil.rmtree(dst, ignore_errors=True)
            return None, p.stdout[-300:]
    return dst, ""

def run_mutant(unit, kind, patch):
    name = os.path.splitext(os.path.basename(patch))[0]
    tag = "%s__%s" % (unit, name)
    t0 = time.time()
    dst, err = make_copy(tag, patch)
    if dst is None:
        return {"unit": unit, "mutant": name, "result": "PATCH-FAILED", "detail": err}
    try:
        if kind == "verus":
            r = vx.check_unit(unit, repo=dst, workdir=os.path.join(ROOT, "out-" + tag), canary=False)
            res = {"violation": "CAUGHT", "pass": "MISSED"}.get(r["status"], "UNDECIDED")
            detail = "; ".join(f.get("obligation", "") for f in r.get("failed", [])[:2]) or r.get("reason", "")
        else:
            u = kx.load_unit(unit)
            out, _ = kx.run_unit_group([u], repo=dst, tier="thorough", tag="selftest-" + tag)   # mutants may only be refuted by thorough-tier harnesses
            sts = {h: r["status"] for h, r in out.items()}
            exp_fail = {h["name"] for h in u["harnesses"] if h.get("expect") == "fail"}
            caught = [h for h, s in sts.items() if s == "fail" and h not in exp_fail]
            und = [h for h, s in sts.items() if s == "undecided"]
            res = "CAUGHT" if caught else ("UNDECIDED" if und else "MISSED")
            detail = "refuted: " + ",".join(caught) if caught else (("undecided: " + ",".join(und) + " " + str([out[h].get("reason") for h in und][:1])) if und else "")
        return {"unit": unit, "mutant": name, "result": res, "detail": detail[:300], "wall_s": round(time.time() - t0, 1)}
    finally:
        shutil.rmtree(dst, ignore_errors=True)
        shutil.rmtree(os.path.join(ROOT, "out-" + tag), ignore_errors=True)

def run(units=None, prop=None, backend="all", jobs=6):
    todo = []
    for d in sorted(glob.glob(os.path.join(VERIF, "specs", "mutants", "*"))):
        unit = os.path.basename(d)
        kind = unit_kind(unit)
        if kind is None: continue
        reg = json.load(open(os.path.join(VERIF, "specs", "registered.json")))
        if not units and unit not in reg["verus"] + reg["kani"]: continue
        if units and unit not in units: continue
        if backend != "all" and kind != backend: continue
        if prop and prop not in serves(unit, kind): continue
        for p in sorted(glob.glob(os.path.join(d, "*.patch"))):
            todo.append((unit, kind, p))
    results = []
    vt = [t for t in todo if t[1] == "verus"]
    kt = [t for t in todo if t[1] == "kani"]
    with concurrent.futures.ThreadPoolExecutor(max_workers=jobs) as ex:
        for r in ex.map(lambda t: run_mutant(*t), vt):
            results.append(r)
    for t in kt:   # kani runs are serialised by the build-cache lock anyway
        results.append(run_mutant(*t))
    return results

if __name__ == "__main__":
    ap = argparse.ArgumentParser()
    ap.add_argument("--unit", action="append")
    ap.add_argument("--prop")
    ap.add_argument("--backend", default="all")
    a = ap.parse_args()
    rs = run(a.unit, a.prop, a.backend)
    for r in rs:
        print("%-28s %-32s %-10s %s" % (r["unit"], r["mutant"], r["result"], r.get("detail", "")))
    bad = [r for r in rs if r["result"] != "CAUGHT"]
    print("%d mutants, %d caught, %d not caught" % (len(rs), len(rs) - len(bad), len(bad)))
    shutil.rmtree(ROOT, ignore_errors=True)
    sys.exit(1 if bad else 0)
