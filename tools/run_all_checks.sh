#!/bin/bash
# run every claimed property's quick check (rewrites evidence/*.json); prints one line per property
cd /verif
for p in $(python3 -c "import json;print(' '.join(c['property_id'] for c in json.load(open('MANIFEST.json'))['checks']))"); do
  s=$(date +%s); python3 tools/check.py $p --tier ${1:-quick} > /tmp/verif-check-$p.log 2>&1; rc=$?; e=$(date +%s)
  echo "$p rc=$rc $((e-s))s $(head -1 /tmp/verif-check-$p.log)"
  grep -E "VIOLATION|UNDECIDED|KNOWN-FINDING" /tmp/verif-check-$p.log
done
