#!/usr/bin/env python3
import json, sys, glob
sys.path.insert(0, "/opt/veriftools/pyvenv/lib/python3.11/site-packages")
try:
    import jsonschema
except ImportError:
    import subprocess
    sys.exit(subprocess.call(["python3-vt", __file__] + sys.argv[1:]))
jsonschema.validate(json.load(open("/verif/MANIFEST.json")), json.load(open("/root/.vp/MANIFEST.schema.json")))
print("MANIFEST valid")
sch = json.load(open("/root/.vp/EVIDENCE.schema.json"))
for f in sorted(glob.glob("/verif/evidence/*.json")):
    jsonschema.validate(json.load(open(f)), sch); print(f, "valid")
