#!/usr/bin/env python3
"""confirm_seed.py <worktree> <seed_dir> <dest_id> : independently confirm a seeded change in a scratch git worktree of /repo
(outside /repo and /verif) and, if confirmed, store it under /verif/seeded/<dest_id>/ (patch.diff, demonstration, meta.json).
Confirms: (1) pristine + demo passes; (2) patch + demo fails; (3) patch without demo: the whole existing suite passes."""
import json, os, re, shutil, subprocess, sys, time, glob
wt, sd, dest = sys.argv[1], sys.argv[2], sys.argv[3]
meta = json.load(open(os.path.join(sd, "meta.json")))
demo_files = [f for f in os.listdir(sd) if f.endswith(".rs")]
assert len(demo_files) == 1, demo_files
demo = os.path.join(sd, demo_files[0])
placement = meta["demo_placement"]
append_mode = placement.lower().startswith("append")
if append_mode:
    import re as _re
    target = [w.strip("(),") for w in placement.split() if w.strip("(),").endswith(".rs") and not w.startswith("_seeded")][-1]
    place = os.path.join(wt, target)
else:
    cands = [w.strip("(),`") for w in placement.split() if w.strip("(),`").endswith(".rs") and not w.strip("(),`").startswith("_seeded")]
    place = os.path.join(wt, cands[0] if cands else placement.split()[0])
def sh(cmd, **kw):
    p = subprocess.run(cmd, shell=True, cwd=wt, stdout=subprocess.PIPE, stderr=subprocess.STDOUT, text=True, **kw)
    return p.returncode, p.stdout
def clean():
    sh("git checkout -- . && git clean -fdq -e _seeded -e target")
clean()
res = {"date": time.strftime("%Y-%m-%d %H:%M"), "worktree": wt}
os.makedirs(os.path.dirname(place), exist_ok=True)
def put_demo():
    if append_mode:
        open(place, "a").write("\n" + open(demo).read())
    else:
        shutil.copy(demo, place)
def drop_demo():
    if append_mode:
        sh("git checkout -- %s" % os.path.relpath(place, wt))
    else:
        os.remove(place)
put_demo()
rc, out = sh(meta["demo_cmd"] + " 2>&1 | tail -30")
ok1 = "test result: ok" in out and "FAILED" not in out
res["pristine_demo"] = "pass" if ok1 else "FAIL"; res["pristine_demo_tail"] = out[-400:]
if append_mode:
    drop_demo()
rc, out = sh("git apply %s" % os.path.join(sd, "patch.diff"))
res["patch_applies"] = rc == 0
if append_mode:
    put_demo()
rc, out = sh(meta["demo_cmd"] + " 2>&1 | tail -60")
ok2 = "FAILED" in out or "panicked" in out
lines = [l for l in out.split("\n") if "panicked" in l or "assert" in l.lower() or "left:" in l or "right:" in l]
res["patched_demo"] = "fails" if ok2 else "DOES-NOT-FAIL"; res["patched_demo_failure"] = "\n".join(lines[:6])[:800]
if append_mode:
    # remove only the appended demo, keep the patch
    txt = open(place).read(); dtxt = "\n" + open(demo).read()
    assert txt.endswith(dtxt); open(place, "w").write(txt[:-len(dtxt)])
else:
    os.remove(place)
rc, out = sh("cargo nextest run --workspace --offline --no-fail-fast --test-threads 8 2>&1 | tail -5", timeout=3600)
m = re.search(r"(\d+) tests run: (\d+) passed(?: \((\d+) [a-z]+\))?(?:, (\d+) failed)?", out)
res["suite"] = m.group(0) if m else out[-300:]
ok3 = bool(m) and m.group(1) == m.group(2) and int(m.group(1)) >= 1547
res["suite_passes_with_change"] = ok3
clean()
res["confirmed"] = bool(ok1 and res["patch_applies"] and ok2 and ok3)
print(json.dumps(res, indent=1))
if res["confirmed"]:
    d = os.path.join("/verif/seeded", dest)
    os.makedirs(d, exist_ok=True)
    shutil.copy(os.path.join(sd, "patch.diff"), d)
    shutil.copy(demo, d)
    meta["confirmed_by_main_session"] = res
    json.dump(meta, open(os.path.join(d, "meta.json"), "w"), indent=1)
sys.exit(0 if res["confirmed"] else 1)
