// Candidate finding F-rangejson (C03, unit range_json_bounds): "the set of matching documents equals the set defined by the
// query's meaning over the field values of the live documents ... ranges with inclusive, exclusive and open bounds".
//
// A range query on a JSON path whose numbers live in a FAST column coerces the bounds (typed by the query term: i64, u64 or
// f64) to the numeric type of the column found in the segment (I64, U64 or F64):
// src/query/range_query/range_query_fastfield.rs, `search_on_json_numerical_field` + `transform_from_f64_bounds`.
// The Kani unit states: value v is in the interval scanned on the column  <=>  v satisfies the user's bounds over the reals.
// It is refuted on these input classes (each one reproduced below through the public API only):
//   A  u64 lower bound > i64::MAX on an I64 column: replaced by Excluded(i64::MAX as u64); in the code space of an I64 column
//      (v ^ 2^63) that is the code of -1, i.e. "v > -1" instead of "no hits"
//   B  f64 bound with a fractional part on an integer column: both sides are truncated toward zero and made Included;
//      wrong for a positive lower bound (1.5 -> v >= 1, must be v >= 2) and for a negative upper bound (-1.5 -> v <= -1, must be v <= -2)
//   C  f64 upper bound below the minimum of the column's type (negative on U64, < -2^63 on I64, -inf): replaced by Unbounded
//      ("everything") instead of "no hits"
//   D  f64 bound exactly 2^64 (U64 column) / 2^63 (I64 column): `>` instead of `>=` against `T::max() as f64`, the saturating
//      cast makes it MAX: lower Included(2^64) matches v = u64::MAX, upper Excluded(2^64) misses v = u64::MAX
//   E  i64/u64 bound on an F64 column: `bound as f64` rounds to nearest; above 2^53 the rounded bound is a different number
//      (lower Included(2^53+1) becomes >= 2^53)
//
// Ordinary integration test, public API only: copy into tests/ of a copy of the tree,
//   cargo test --offline --test demo_range_json_bounds -- --test-threads 1 --nocapture
// Recorded runs: see the end of this file.
use std::collections::BTreeMap;
use std::ops::Bound;

use tantivy::collector::DocSetCollector;
use tantivy::query::{QueryParser, RangeQuery};
use tantivy::schema::{OwnedValue, Schema, FAST, STORED, TEXT};
use tantivy::{Index, IndexWriter, TantivyDocument, Term};

#[derive(Clone, Copy, Debug)]
enum N {
    I(i64),
    U(u64),
    F(f64),
}

/// exact comparison of two numbers over the reals
fn cmp_exact(a: N, b: N) -> std::cmp::Ordering {
    use std::cmp::Ordering::*;
    fn int_vs_f64(i: i128, x: f64) -> std::cmp::Ordering {
        if x == f64::INFINITY {
            return Less;
        }
        if x == f64::NEG_INFINITY {
            return Greater;
        }
        let fl = x.floor(); // |x| < 2^127 for everything used here: the cast below is exact
        let fi = fl as i128;
        match i.cmp(&fi) {
            Equal if x > fl => Less,
            o => o,
        }
    }
    let int = |n: N| match n {
        N::I(v) => Some(v as i128),
        N::U(v) => Some(v as i128),
        N::F(_) => None,
    };
    match (a, b) {
        (N::F(x), N::F(y)) => x.partial_cmp(&y).unwrap(),
        (N::F(x), _) => int_vs_f64(int(b).unwrap(), x).reverse(),
        (_, N::F(y)) => int_vs_f64(int(a).unwrap(), y),
        _ => int(a).unwrap().cmp(&int(b).unwrap()),
    }
}

fn satisfies(v: N, lower: Bound<N>, upper: Bound<N>) -> bool {
    use std::cmp::Ordering::*;
    let lo = match lower {
        Bound::Included(b) => cmp_exact(v, b) != Less,
        Bound::Excluded(b) => cmp_exact(v, b) == Greater,
        Bound::Unbounded => true,
    };
    let up = match upper {
        Bound::Included(b) => cmp_exact(v, b) != Greater,
        Bound::Excluded(b) => cmp_exact(v, b) == Less,
        Bound::Unbounded => true,
    };
    lo && up
}

struct Fixture {
    index: Index,
    values: Vec<N>,
    column_type: String,
}

/// one segment, document i holds {"k": values[i]} in a FAST json field
fn fixture(values: &[N]) -> Fixture {
    let mut schema_builder = Schema::builder();
    let json = schema_builder.add_json_field("j", TEXT | STORED | FAST);
    let index = Index::create_in_ram(schema_builder.build());
    let mut writer: IndexWriter = index.writer_with_num_threads(1, 20_000_000).unwrap();
    for v in values {
        let val = match *v {
            N::I(x) => OwnedValue::I64(x),
            N::U(x) => OwnedValue::U64(x),
            N::F(x) => OwnedValue::F64(x),
        };
        let mut doc = TantivyDocument::default();
        doc.add_object(json, BTreeMap::from([("k".to_string(), val)]));
        writer.add_document(doc).unwrap();
    }
    writer.commit().unwrap();
    let searcher = index.reader().unwrap().searcher();
    assert_eq!(searcher.segment_readers().len(), 1);
    let (_col, col_type) = searcher
        .segment_reader(0)
        .fast_fields()
        .u64_lenient_for_type(None, "j.k")
        .unwrap()
        .unwrap();
    Fixture { index, values: values.to_vec(), column_type: format!("{col_type:?}") }
}

fn term(fx: &Fixture, n: N) -> Term {
    let json = fx.index.schema().get_field("j").unwrap();
    let mut term = Term::from_field_json_path(json, "k", true);
    match n {
        N::I(x) => term.append_type_and_fast_value(x),
        N::U(x) => term.append_type_and_fast_value(x),
        N::F(x) => term.append_type_and_fast_value(x),
    }
    term
}

fn map<T, U>(b: Bound<T>, f: impl Fn(T) -> U) -> Bound<U> {
    match b {
        Bound::Included(x) => Bound::Included(f(x)),
        Bound::Excluded(x) => Bound::Excluded(f(x)),
        Bound::Unbounded => Bound::Unbounded,
    }
}

/// (documents matched by RangeQuery, documents whose value satisfies the bounds)
fn run(fx: &Fixture, lower: Bound<N>, upper: Bound<N>) -> (Vec<u32>, Vec<u32>) {
    let searcher = fx.index.reader().unwrap().searcher();
    let query = RangeQuery::new(map(lower, |n| term(fx, n)), map(upper, |n| term(fx, n)));
    let mut got: Vec<u32> = searcher.search(&query, &DocSetCollector).unwrap().into_iter().map(|a| a.doc_id).collect();
    got.sort();
    let want: Vec<u32> = (0..fx.values.len() as u32).filter(|&d| satisfies(fx.values[d as usize], lower, upper)).collect();
    println!(
        "  column {} values {:?}  range ({:?}, {:?})  matched docs {:?}  direct computation {:?}",
        fx.column_type, fx.values, lower, upper, got, want
    );
    (got, want)
}

fn parse_and_run(fx: &Fixture, q: &str) -> Vec<u32> {
    let searcher = fx.index.reader().unwrap().searcher();
    let parser = QueryParser::for_index(&fx.index, vec![]);
    let query = parser.parse_query(q).unwrap();
    let mut got: Vec<u32> = searcher.search(&query, &DocSetCollector).unwrap().into_iter().map(|a| a.doc_id).collect();
    got.sort();
    println!("  column {} values {:?}  query {q}  matched docs {got:?}", fx.column_type, fx.values);
    got
}

use Bound::{Excluded as Ex, Included as In, Unbounded as Un};

// ------------------------------------------------------------------------------------------------ class A (suspicious spot i)
#[test]
fn a_u64_lower_bound_above_i64_max_on_i64_column_matches_nothing() {
    let fx = fixture(&[N::I(-5), N::I(0), N::I(7)]);
    assert_eq!(fx.column_type, "I64");
    let (got, want) = run(&fx, In(N::U(1 << 63)), Un);
    assert_eq!(want, Vec::<u32>::new());
    assert_eq!(got, want, "v >= 2^63 on an i64 column");
}
#[test]
fn a_same_through_the_query_parser() {
    let fx = fixture(&[N::I(-5), N::I(0), N::I(7)]);
    assert_eq!(parse_and_run(&fx, "j.k:[9223372036854775808 TO *]"), Vec::<u32>::new());
}

// ------------------------------------------------------------------------------------------------ class B (suspicious spot ii)
#[test]
fn b_fractional_positive_lower_bound_on_i64_column() {
    let fx = fixture(&[N::I(1), N::I(2), N::I(3)]);
    let (got, want) = run(&fx, In(N::F(1.5)), Un);
    assert_eq!(want, vec![1, 2]);
    assert_eq!(got, want, "v >= 1.5");
    let (got, want) = run(&fx, Ex(N::F(1.5)), Un);
    assert_eq!(got, want, "v > 1.5");
}
#[test]
fn b_fractional_positive_lower_bound_on_u64_column() {
    let fx = fixture(&[N::U(1), N::U(2), N::U(u64::MAX)]);
    assert_eq!(fx.column_type, "U64");
    let (got, want) = run(&fx, In(N::F(1.5)), Un);
    assert_eq!(want, vec![1, 2]);
    assert_eq!(got, want, "v >= 1.5");
}
#[test]
fn b_fractional_negative_upper_bound_on_i64_column() {
    let fx = fixture(&[N::I(-3), N::I(-2), N::I(-1)]);
    let (got, want) = run(&fx, Un, In(N::F(-1.5)));
    assert_eq!(want, vec![0, 1]);
    assert_eq!(got, want, "v <= -1.5");
    let (got, want) = run(&fx, Un, Ex(N::F(-1.5)));
    assert_eq!(got, want, "v < -1.5");
}
#[test]
fn b_same_through_the_query_parser() {
    let fx = fixture(&[N::I(1), N::I(2), N::I(3)]);
    assert_eq!(parse_and_run(&fx, "j.k:[1.5 TO *]"), vec![1, 2]);
}
// controls: the sides the truncation happens to get right
#[test]
fn b_controls_fractional_upper_positive_and_lower_negative() {
    let fx = fixture(&[N::I(-2), N::I(-1), N::I(1), N::I(2)]);
    let (got, want) = run(&fx, In(N::F(-1.5)), In(N::F(1.5)));
    assert_eq!(got, want);
    let (got, want) = run(&fx, Ex(N::F(-1.5)), Ex(N::F(1.5)));
    assert_eq!(got, want);
}

// ------------------------------------------------------------------------------------------------ class C
#[test]
fn c_f64_upper_bound_below_type_minimum_matches_nothing_u64_column() {
    let fx = fixture(&[N::U(1), N::U(u64::MAX)]);
    assert_eq!(fx.column_type, "U64");
    let (got, want) = run(&fx, Un, In(N::F(-0.5)));
    assert_eq!(want, Vec::<u32>::new());
    assert_eq!(got, want, "v <= -0.5 on a u64 column");
}
#[test]
fn c_f64_upper_bound_below_type_minimum_matches_nothing_i64_column() {
    let fx = fixture(&[N::I(-5), N::I(7)]);
    let (got, want) = run(&fx, In(N::F(-1e30)), In(N::F(-1e19)));
    assert_eq!(got, want, "-1e30 <= v <= -1e19 on an i64 column");
    let (got, want) = run(&fx, Un, Ex(N::F(f64::NEG_INFINITY)));
    assert_eq!(got, want, "v < -inf");
}
#[test]
fn c_same_through_the_query_parser() {
    let fx = fixture(&[N::U(1), N::U(u64::MAX)]);
    assert_eq!(parse_and_run(&fx, "j.k:[* TO -0.5]"), Vec::<u32>::new());
}

// ------------------------------------------------------------------------------------------------ class D
#[test]
fn d_f64_bound_equal_to_two_pow_64_on_u64_column() {
    let fx = fixture(&[N::U(1), N::U(u64::MAX)]);
    let two64 = 18446744073709551616.0f64;
    let (got, want) = run(&fx, In(N::F(two64)), Un);
    assert_eq!(got, want, "v >= 2^64");
    let (got2, want2) = run(&fx, Un, Ex(N::F(two64)));
    assert_eq!(got2, want2, "v < 2^64");
}
#[test]
fn d_f64_bound_equal_to_two_pow_63_on_i64_column() {
    let fx = fixture(&[N::I(1), N::I(i64::MAX)]);
    let two63 = 9223372036854775808.0f64;
    let (got, want) = run(&fx, In(N::F(two63)), Un);
    assert_eq!(got, want, "v >= 2^63");
    let (got2, want2) = run(&fx, Un, Ex(N::F(two63)));
    assert_eq!(got2, want2, "v < 2^63");
}

// ------------------------------------------------------------------------------------------------ class E
#[test]
fn e_integer_bound_not_representable_in_f64_on_f64_column() {
    let p53 = 9007199254740992.0f64; // 2^53
    let fx = fixture(&[N::F(0.5), N::F(p53), N::F(p53 + 4.0)]);
    assert_eq!(fx.column_type, "F64");
    let (got, want) = run(&fx, In(N::I((1 << 53) + 1)), Un); // rounds down to 2^53
    assert_eq!(want, vec![2]);
    assert_eq!(got, want, "v >= 2^53 + 1");
    let (got, want) = run(&fx, Ex(N::U((1 << 53) + 3)), Un); // rounds up to 2^53 + 4
    assert_eq!(want, vec![2]);
    assert_eq!(got, want, "v > 2^53 + 3");
}

// ------------------------------------------------------------------------------------------------ outside the unit's claim
// Both bounds of one query are read with the type of the first one (`term.as_i64().unwrap()`); the query parser types each
// bound on its own, so `[1 TO 2.5]` has an i64 lower and an f64 upper bound.
#[test]
fn x_bounds_of_two_numeric_types_do_not_panic() {
    let fx = fixture(&[N::I(1), N::I(2), N::I(3)]);
    assert_eq!(parse_and_run(&fx, "j.k:[1 TO 2.5]"), vec![0, 1]);
}

// Recorded 2026-09-25 on the unchanged /repo (14 tests: 1 passed, 13 failed):
//   a_u64_lower_bound_above_i64_max_on_i64_column_matches_nothing   FAILED  I64 [-5, 0, 7]   [U 2^63, *]      matched [1, 2]     direct []
//   a_same_through_the_query_parser                                 FAILED  j.k:[9223372036854775808 TO *]  matched [1, 2]
//   b_fractional_positive_lower_bound_on_i64_column                 FAILED  I64 [1, 2, 3]    [F 1.5, *]       matched [0, 1, 2]  direct [1, 2]
//   b_fractional_positive_lower_bound_on_u64_column                 FAILED  U64 [1, 2, MAX]  [F 1.5, *]       matched [0, 1, 2]  direct [1, 2]
//   b_fractional_negative_upper_bound_on_i64_column                 FAILED  I64 [-3,-2,-1]   [*, F -1.5]      matched [0, 1, 2]  direct [0, 1]
//   b_same_through_the_query_parser                                 FAILED  j.k:[1.5 TO *]   matched [0, 1, 2]
//   b_controls_fractional_upper_positive_and_lower_negative         ok
//   c_f64_upper_bound_below_type_minimum_matches_nothing_u64_column FAILED  U64 [1, MAX]     [*, F -0.5]      matched [0, 1]     direct []
//   c_f64_upper_bound_below_type_minimum_matches_nothing_i64_column FAILED  I64 [-5, 7]      [F -1e30, F -1e19] matched [0, 1]   direct []
//   c_same_through_the_query_parser                                 FAILED  j.k:[* TO -0.5]  matched [0, 1]
//   d_f64_bound_equal_to_two_pow_64_on_u64_column                   FAILED  U64 [1, MAX]     [F 2^64, *]      matched [1]        direct []
//   d_f64_bound_equal_to_two_pow_63_on_i64_column                   FAILED  I64 [1, MAX]     [F 2^63, *]      matched [1]        direct []
//   e_integer_bound_not_representable_in_f64_on_f64_column          FAILED  F64 [0.5, 2^53, 2^53+4]  [I 2^53+1, *]  matched [1, 2]  direct [2]
//   x_bounds_of_two_numeric_types_do_not_panic                      FAILED  panicked at src/query/range_query/range_query_fastfield.rs:282:64:
//                                                                           called `Option::unwrap()` on a `None` value
// With /tmp/rb2/fix.patch applied (search_on_json_numerical_field: Excluded(u64::MAX) for class A, transform_int_bounds_to_f64 for
// class E; transform_from_f64_bounds: ceil / floor, `>=` against MAX as f64, "no hits" for an upper bound below the minimum):
// 13 passed, only x_* still fails (not addressed by the patch); `cargo test --offline -p tantivy --lib query::range_query`: 34 passed.
