//! Native demonstration of finding F-stackv1 (unit `stacked_column_index_bounded`, harness `stk_v1_empty_doc_witness`):
//! stacking a legacy `MultiValueIndexV1` column index that contains a document WITHOUT values produces a merged index in which
//! the later documents point at the wrong value rows.  `get_doc_ids_with_values` (V1 arm) leaves the empty document out of the
//! merged optional index, `get_num_values_iterator` (Multivalued arm) still emits its count 0, so the merged start-offset column
//! has one entry too many.
//! Uses crate-private items: APPEND this file to `columnar/src/column_index/merge/stacked.rs` of a copy of the repository and run
//! `cargo test --offline -p tantivy-columnar --lib v1_with_empty_doc_stacked` (fails on the unmodified tree:
//! "merged ranges: 0..2 0..0 2..2", left: 2..2, right: 2..3).
#[cfg(test)]
mod verif_native_probe {
    use std::sync::Arc;

    use super::*;
    use crate::column_index::multivalued_index::MultiValueIndexV1;
    use crate::column_index::{open_column_index, serialize_column_index};
    use crate::column_values::VecColumn;

    #[test]
    fn v1_with_empty_doc_stacked() {
        // legacy V1 input: doc0 has 2 values, doc1 none, doc2 one value
        let values = vec![0u32, 2, 2, 3];
        let col: Arc<dyn crate::ColumnValues<RowId>> = Arc::new(VecColumn::from(values));
        let columns = [ColumnIndex::Multivalued(MultiValueIndex::MultiValueIndexV1(
            MultiValueIndexV1 { start_index_column: col },
        ))];
        assert_eq!(columns[0].value_row_ids(0), 0..2);
        assert!(columns[0].value_row_ids(1).is_empty());
        assert_eq!(columns[0].value_row_ids(2), 2..3);
        let smo = StackMergeOrder::stack_for_test(&[3]);
        let merged = merge_column_index_stacked(&columns, Cardinality::Multivalued, &smo);
        let mut buf = Vec::new();
        serialize_column_index(merged, &mut buf).unwrap();
        let ci = open_column_index(common::OwnedBytes::new(buf), crate::Version::V2).unwrap();
        eprintln!("merged ranges: {:?} {:?} {:?}", ci.value_row_ids(0), ci.value_row_ids(1), ci.value_row_ids(2));
        assert_eq!(ci.value_row_ids(0), 0..2);
        assert!(ci.value_row_ids(1).is_empty());
        assert_eq!(ci.value_row_ids(2), 2..3);
    }
}
