// Native demonstration for unit score_top_collect (C06), public API only.  Copy to tests/ of a copy of the tree and run
//     cargo test --offline --test demo_topdocs_score_min
// Recorded run (2026-09-26, this sandbox, unchanged /repo): both tests FAIL --
//     "score f32::MIN: count = 2, top docs = 0"   and   "score -inf: count = 2, top docs = 0".
// Observation recorded by unit score_top_collect (C06): TopDocs::order_by_score() hands Score::MIN (= f32::MIN, a finite number) to
// Weight::for_each_pruning as the initial threshold, and for_each_pruning only passes documents with `score > threshold`.
// A matching document whose score is <= f32::MIN (f32::MIN itself, or -inf) is therefore never collected, even when fewer than
// `limit` documents match: "the best K" silently loses it, while Count sees it.
use tantivy::collector::{Count, TopDocs};
use tantivy::query::{AllQuery, BoostQuery, ConstScoreQuery, Query};
use tantivy::schema::{Schema, TEXT};
use tantivy::{doc, Index, IndexWriter};

fn index_with_two_docs() -> tantivy::Result<Index> {
    let mut schema_builder = Schema::builder();
    let text = schema_builder.add_text_field("text", TEXT);
    let index = Index::create_in_ram(schema_builder.build());
    let mut writer: IndexWriter = index.writer_with_num_threads(1, 20_000_000)?;
    writer.add_document(doc!(text => "a"))?;
    writer.add_document(doc!(text => "b"))?;
    writer.commit()?;
    Ok(index)
}

fn run(query: &dyn Query) -> tantivy::Result<(usize, usize)> {
    let index = index_with_two_docs()?;
    let searcher = index.reader()?.searcher();
    let count = searcher.search(query, &Count)?;
    let top = searcher.search(query, &TopDocs::with_limit(10).order_by_score())?;
    Ok((count, top.len()))
}

#[test]
fn score_min_documents_are_never_collected() -> tantivy::Result<()> {
    // control: an ordinary score
    let (count, top) = run(&ConstScoreQuery::new(Box::new(AllQuery), -1.0))?;
    assert_eq!((count, top), (2, 2));
    // score == f32::MIN
    let (count, top) = run(&ConstScoreQuery::new(Box::new(AllQuery), f32::MIN))?;
    println!("score f32::MIN: count = {count}, top docs = {top}");
    assert_eq!(count, 2);
    assert_eq!(top, 2, "documents with score f32::MIN are dropped by TopDocs::order_by_score");
    Ok(())
}

#[test]
fn negative_infinity_documents_are_never_collected() -> tantivy::Result<()> {
    let (count, top) = run(&BoostQuery::new(Box::new(AllQuery), f32::NEG_INFINITY))?;
    println!("score -inf: count = {count}, top docs = {top}");
    assert_eq!(count, 2);
    assert_eq!(top, 2, "documents with score -inf are dropped by TopDocs::order_by_score");
    Ok(())
}
