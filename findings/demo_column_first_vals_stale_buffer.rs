//! Observation (unit `column_accessors`, C08): drop into columnar/tests/ ;
//! `cargo test --offline -p tantivy-columnar --test demo_column_first_vals_stale_buffer`
//! Recorded run (2026-09-26, scratch copy of /repo): 2 passed, 1 FAILED (multivalued_column_batch_differs_from_pointwise_with_a_dirty_buffer:
//! left [Some(10), Some(777), Some(30)], right [Some(10), None, Some(30)]).
//!
//! `Column::first_vals(docids, output)` ("Load the first value for each docid in the provided slice") is the batch form of
//! `Column::first(doc)`.  The Optional arm writes `None` for a doc without value; the Multivalued arm only writes `Some(..)`
//! and the Empty arm writes nothing, so with a reused buffer the entries of docs WITHOUT a value keep whatever the buffer held:
//! the batch result then differs from the pointwise `first`.  (Only caller in the repository: columnar/benches/bench_access.rs,
//! which reuses its buffer across calls but only on full columns.)
use tantivy_columnar::{Cardinality, Column, ColumnarReader, ColumnarWriter, DynamicColumn};

fn build(multivalued: bool) -> Column<i64> {
    let mut writer = ColumnarWriter::default();
    // doc 0: 10 (and 11 if multivalued), doc 1: no value, doc 2: 30
    writer.record_numerical(0u32, "c", 10u64);
    if multivalued {
        writer.record_numerical(0u32, "c", 11u64);
    }
    writer.record_numerical(2u32, "c", 30u64);
    let mut buffer: Vec<u8> = Vec::new();
    writer.serialize(3, None, &mut buffer).unwrap();
    let reader = ColumnarReader::open(buffer).unwrap();
    let cols = reader.read_columns("c").unwrap();
    assert_eq!(cols.len(), 1);
    match cols[0].open().unwrap() {
        DynamicColumn::I64(col) => col, // small non-negative integers are stored as i64
        other => panic!("unexpected column type {:?}", other.column_type()),
    }
}

#[test]
fn optional_column_batch_equals_pointwise_even_with_a_dirty_buffer() {
    let col = build(false);
    assert_eq!(col.get_cardinality(), Cardinality::Optional);
    let docs = [0u32, 1, 2];
    let mut out = [Some(777i64); 3];
    col.first_vals(&docs, &mut out);
    let pointwise: Vec<Option<i64>> = docs.iter().map(|d| col.first(*d)).collect();
    assert_eq!(&out[..], &pointwise[..]);
}

#[test]
fn multivalued_column_batch_equals_pointwise_with_a_clean_buffer() {
    let col = build(true);
    assert_eq!(col.get_cardinality(), Cardinality::Multivalued);
    let docs = [0u32, 1, 2];
    let mut out = [None; 3];
    col.first_vals(&docs, &mut out);
    let pointwise: Vec<Option<i64>> = docs.iter().map(|d| col.first(*d)).collect();
    assert_eq!(&out[..], &pointwise[..]);
}

#[test]
fn multivalued_column_batch_differs_from_pointwise_with_a_dirty_buffer() {
    let col = build(true);
    let docs = [0u32, 1, 2];
    let mut out = [Some(777i64); 3];
    col.first_vals(&docs, &mut out);
    let pointwise: Vec<Option<i64>> = docs.iter().map(|d| col.first(*d)).collect();
    // expected by "first value for each docid": [Some(10), None, Some(30)].  Observed: out[1] == Some(777) (stale).
    assert_eq!(&out[..], &pointwise[..], "first_vals left a stale entry for the doc without value");
}
