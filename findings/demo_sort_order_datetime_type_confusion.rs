//! Native demonstration (worker w13c, properties C17 / C08): `ColumnarWriter::sort_order` (columnar/src/columnar/writer/mod.rs)
//! looks the sort column up with
//!     self.numerical_field_hash_map.get::<NumericalColumnWriter>(name)
//!         .or_else(|| self.datetime_field_hash_map.get::<NumericalColumnWriter>(name))
//! but `record_datetime` / `record_column_type(.., DateTime, ..)` store a plain `ColumnWriter` in the datetime map (and
//! `serialize` reads it back as `ColumnWriter`).  `ArenaHashMap::get::<V>` copies `size_of::<V>()` bytes from the arena
//! (`MemoryArena::read` -> `Page::slice` -> `get_unchecked(..len)`), so the lookup reads size_of::<NumericalColumnWriter>() = 32
//! bytes where a 28-byte ColumnWriter was written.  Measured layout (rustc of this image, repr(Rust), not guaranteed):
//!     size_of ColumnWriter = 28, size_of NumericalColumnWriter = 32, offset_of column_writer = 0,
//!     offset_of compatible_numerical_types = 28 (2 bytes), so
//! * in the ordinary case the ColumnWriter prefix is read correctly (field reordering put it at offset 0) and the 4 extra bytes
//!   -- the first bytes of whatever follows in the datetime map's arena (the next entry's u16 key length + key, or zeros) -- are
//!   materialised as a `CompatibleNumericalTypes` enum that is never inspected: the result is right (first test), by luck of the layout;
//! * when the entry is the last thing in a 1 MiB arena page the read runs 4 bytes past the page's `Box<[u8; 1 << 20]>`:
//!   undefined behaviour (heap over-read in release builds; in debug builds std's unsafe-precondition check aborts the process:
//!   "unsafe precondition(s) violated: slice::get_unchecked requires that the range is within the slice") -- second test.
//! The datetime hash map owns its arena, which only holds its entries (2 + key length + 28 bytes each), so the second case needs
//! ~1 MiB of datetime column names in front of the sort column: reachable through the public columnar API as below; through
//! tantivy (`IndexSettings::sort_by_field` on a date fast field, columns pre-created in schema order by FastFieldsWriter, further
//! datetime columns named by JSON paths) only with a schema whose earlier date field names add up to the page size.
//! Fix direction: `get::<ColumnWriter>` for the datetime map (both expose `operation_iterator`).
//! Drop into `columnar/tests/` of a copy of the repository:
//!   cargo test --offline -p tantivy-columnar --test demo_sort_order_datetime_type_confusion -- --nocapture --test-threads 1
//! Observed: test 1 ok; test 2 aborts (SIGABRT) in MemoryArena::read <- SharedArenaHashMap::get <- ColumnarWriter::sort_order.
use common::DateTime;
use tantivy_columnar::ColumnarWriter;

fn name(i: usize, len: usize) -> String {
    format!("{:0>width$}", i, width = len)
}

#[test]
fn sort_by_datetime_column_ordinary_case_works() {
    let mut w = ColumnarWriter::default();
    w.record_datetime(0, "ts", DateTime::from_timestamp_nanos(30));
    w.record_datetime(1, "ts", DateTime::from_timestamp_nanos(-5));
    w.record_datetime(3, "ts", DateTime::from_timestamp_nanos(7));
    assert_eq!(w.sort_order("ts", 4, false), vec![2, 1, 3, 0]);
}

#[test]
fn sort_by_datetime_column_stored_at_the_end_of_an_arena_page() {
    // the datetime hash map has its own arena; one entry = 2 (key length) + key + size_of::<ColumnWriter>() = 28 bytes
    // 16 entries of 65536 bytes fill the first 1 MiB page exactly; the last one is the sort column.
    let key_len = 65536 - 2 - 28;
    let mut w = ColumnarWriter::default();
    for i in 0..16 {
        w.record_datetime(0, &name(i, key_len), DateTime::from_timestamp_nanos(i as i64));
    }
    // reads size_of::<NumericalColumnWriter>() = 32 bytes where a 28-byte ColumnWriter was stored, 4 bytes past the page
    let order = w.sort_order(&name(15, key_len), 1, false);
    println!("order = {order:?}");
}
