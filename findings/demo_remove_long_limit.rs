// Candidate finding (C19 filter contracts, unit token_filters_offsets, variant `--define DOC_LIMIT`).
// rustdoc of RemoveLongFilter (src/tokenizer/remove_long.rs): "`RemoveLongFilter` removes tokens that are longer than a given
// number of bytes (in UTF-8 representation)"; module example: limit(5) -- "because `toolong` is more than 5 characters, it is
// filtered out".  A token of EXACTLY `limit` bytes is not longer than the limit and should pass.  The code keeps a token iff
// `token.text.len() < self.token_length_limit`, so the token of exactly `limit` bytes is removed as well (off by one between
// documentation and predicate; no test in the tree has a token whose length equals the limit).
// Ordinary integration test, public API only: copy into tests/ of a copy of the tree,
//   cargo test --offline --test demo_remove_long_limit
// Recorded 2026-09-26 on a copy of /repo: token_of_exactly_limit_bytes_is_not_longer_than_the_limit FAILED -- assertion `left == right`
//   failed, left: ["nice"], right: ["hello", "nice"]; documented_example_still_holds ok.
use tantivy::tokenizer::{RemoveLongFilter, SimpleTokenizer, TextAnalyzer};

fn tokens(limit: usize, text: &str) -> Vec<String> {
    let mut analyzer = TextAnalyzer::builder(SimpleTokenizer::default())
        .filter(RemoveLongFilter::limit(limit))
        .build();
    let mut stream = analyzer.token_stream(text);
    let mut out = Vec::new();
    while let Some(t) = stream.next() {
        out.push(t.text.clone());
    }
    out
}

#[test]
fn token_of_exactly_limit_bytes_is_not_longer_than_the_limit() {
    // "toolong" (7 bytes) is longer than 5: removed (the documented example).  "hello" is exactly 5 bytes: not longer than 5.
    assert_eq!(tokens(5, "toolong hello nice"), vec!["hello".to_string(), "nice".to_string()]);
}

#[test]
fn documented_example_still_holds() {
    assert_eq!(tokens(5, "toolong nice"), vec!["nice".to_string()]);
}
