// Candidate findings F-rangeagg-empty / F-rangeagg-reversed (C14, Verus unit range_bucket_pos):
// "For any aggregation request (... range ...), the result over the documents matching a query equals the result computed
// directly from those documents' field values."
//
// src/aggregation/bucket/range.rs `extend_validate_ranges` builds the bucket list of a range aggregation from the request
// ranges; `get_bucket_pos` (binary search on the range starts) picks the bucket a value is counted in.  The Verus unit proves
// both for request ranges that are intervals (from <= to) and at least one range; the two preconditions are NOT enforced by
// the request parser / `RangeAggregation` (no validation anywhere in src/aggregation):
//   A  `"ranges": []`                 -> `converted_buckets[0]`: index out of bounds PANIC inside the collector
//                                        (expected: an `InvalidArgument` error, or an empty bucket list)
//   B  `"ranges": [{"from": 10, "to": 5}]` -> accepted; bucket list [0..10, 10..5, 5..MAX]: the starts are no longer sorted
//                                        and `10..5` contains no value, yet a document with value exactly 10 is counted in
//                                        the bucket "10-5" (direct computation: `10 <= v < 5` holds for no v, count 0)
//
// Ordinary integration test, public API only: copy into tests/ of a copy of the tree,
//   cargo test --offline --test demo_range_agg_ranges -- --test-threads 1 --nocapture
// Recorded runs: see the end of this file.
use serde_json::Value;
use tantivy::aggregation::agg_req::Aggregations;
use tantivy::aggregation::AggregationCollector;
use tantivy::query::AllQuery;
use tantivy::schema::{Schema, FAST};
use tantivy::{doc, Index, IndexWriter};

fn index_with(values: &[u64]) -> tantivy::Result<Index> {
    let mut schema_builder = Schema::builder();
    let score = schema_builder.add_u64_field("score", FAST);
    let index = Index::create_in_ram(schema_builder.build());
    let mut writer: IndexWriter = index.writer_with_num_threads(1, 20_000_000)?;
    for v in values {
        writer.add_document(doc!(score => *v))?;
    }
    writer.commit()?;
    Ok(index)
}

fn run(index: &Index, req: &str) -> tantivy::Result<Value> {
    let agg_req: Aggregations = serde_json::from_str(req).unwrap();
    let collector = AggregationCollector::from_aggs(agg_req, Default::default());
    let searcher = index.reader()?.searcher();
    let res = searcher.search(&AllQuery, &collector)?;
    Ok(serde_json::to_value(res).unwrap())
}

#[test]
fn a_empty_ranges_is_an_error_not_a_panic() {
    let index = index_with(&[3, 7, 10, 12]).unwrap();
    let r = std::panic::catch_unwind(|| run(&index, r#"{"r": {"range": {"field": "score", "ranges": []}}}"#));
    match r {
        Ok(Ok(v)) => println!("A: Ok({v})"),
        Ok(Err(e)) => println!("A: Err({e})"),
        Err(_) => panic!("A: the search PANICKED on `\"ranges\": []`"),
    }
}

#[test]
fn b_reversed_range_bucket_is_empty() {
    let index = index_with(&[3, 7, 10, 12]).unwrap();
    let v = run(&index, r#"{"r": {"range": {"field": "score", "ranges": [{"from": 10.0, "to": 5.0}]}}}"#).unwrap();
    println!("B: {v}");
    let buckets = v["r"]["buckets"].as_array().unwrap();
    for b in buckets {
        let from = b.get("from").and_then(|x| x.as_f64());
        let to = b.get("to").and_then(|x| x.as_f64());
        let direct = [3u64, 7, 10, 12]
            .iter()
            .filter(|&&x| from.map_or(true, |f| (x as f64) >= f) && to.map_or(true, |t| (x as f64) < t))
            .count() as u64;
        assert_eq!(
            b["doc_count"].as_u64().unwrap(),
            direct,
            "bucket {} (from {:?} to {:?}): doc_count differs from the direct computation over [3, 7, 10, 12]",
            b["key"], from, to
        );
    }
}
