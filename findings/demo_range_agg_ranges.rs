// Candidate findings F-rangeagg-empty / F-rangeagg-reversed (C14, Verus unit range_bucket_pos):
// "For any aggregation request (... range ...), the result over the documents matching a query equals the result computed
// directly from those documents' field values."
//
// src/aggregation/bucket/range.rs `extend_validate_ranges` builds the bucket list of a range aggregation from the request
// ranges; `get_bucket_pos` (binary search on the range starts) picks the bucket a value is counted in.  The Verus unit proves
// both for request ranges that are intervals (from <= to) and at least one range; the two preconditions are NOT enforced by
// the request parser / `RangeAggregation` (no validation anywhere in src/aggregation):
//   A  `"ranges": []`                 -> `converted_buckets[0]`: index out of bounds PANIC inside the collector
//                                        (expected: an `InvalidArgument` error, or an empty bucket list)
//   B  `"ranges": [{"from": 10, "to": 5}]` -> accepted; bucket list [0..10, 10..5, 5..MAX]: the starts are no longer sorted
//                                        and the two generated filler buckets "*-10" and "5-*" overlap on [5, 10): a value
//                                        in the overlap is counted in one of them only (direct computation: in both)
//
// Ordinary integration test, public API only: copy into tests/ of a copy of the tree,
//   cargo test --offline --test demo_range_agg_ranges -- --test-threads 1 --nocapture
// C (observation, unit terms_cutoff): `TermsAggregationInternal::from_req` evaluates `size * 10` in u32 even when it is not needed
// (`req.segment_size.unwrap_or(size * 10)`): a terms request with "size" > 429_496_729 panics in debug builds
// ("attempt to multiply with overflow"); release builds wrap and `.max(size)` repairs the value.
#[test]
fn c_terms_size_above_u32_max_div_10() {
    let index = index_with(&[3, 7, 10, 12]).unwrap();
    match run(&index, r#"{"t": {"terms": {"field": "score", "size": 1000000000}}}"#) {
        Ok(v) => println!("C: Ok({v})"),
        Err(e) => println!("C: Err({e})"),
    }
}

// D (no defect observed; documents a dependency on unspecified std behaviour): an EMPTY request range (from == to) duplicates a
// bucket start.  `get_bucket_pos` uses `binary_search_by_key`, whose contract allows ANY of several equal keys to be returned;
// the Verus unit therefore proves the lookup only for non-empty ranges.  With the std of rustc 1.95 the last match is returned
// and the value lands in the non-empty bucket.
#[test]
fn d_empty_range_duplicate_start() {
    let index = index_with(&[3, 5, 7, 12]).unwrap();
    let v = run(&index, r#"{"r": {"range": {"field": "score", "ranges": [{"from": 5.0, "to": 5.0}, {"from": 5.0, "to": 10.0}]}}}"#).unwrap();
    println!("D: {v}");
    for b in v["r"]["buckets"].as_array().unwrap() {
        let from = b.get("from").and_then(|x| x.as_f64());
        let to = b.get("to").and_then(|x| x.as_f64());
        let direct = [3u64, 5, 7, 12]
            .iter()
            .filter(|&&x| from.map_or(true, |f| (x as f64) >= f) && to.map_or(true, |t| (x as f64) < t))
            .count() as u64;
        assert_eq!(b["doc_count"].as_u64().unwrap(), direct, "bucket {}", b["key"]);
    }
}

// E (candidate finding, C14 histogram / fill_gaps integer arithmetic, src/aggregation/bucket/histogram/histogram.rs:794-798):
// the up-front memory check of `intermediate_buckets_to_final_buckets_fill_gaps` computes
//   added_buckets * size_of::<IntermediateHistogramBucketEntry>() as u64        (48 bytes per bucket)
// unchecked in u64, `added_buckets` being (last_bucket_num - first_bucket_num) from the user's `extended_bounds`.
// extended_bounds = [0, 2^60], interval 1, no matching document: added_buckets = 2^60 and 2^60 * 48 = 3 * 2^64:
//   debug builds: panic "attempt to multiply with overflow";
//   release builds: the product wraps to exactly 0, the memory guard is passed, and `generate_buckets_with_opt_minmax` then asks
//   for `Vec::with_capacity(2^60 + 1)` f64s (> isize::MAX bytes): "capacity overflow" panic instead of the intended
//   `AggregationError::MemoryExceeded` (recorded below, `cargo test --release`).
#[test]
fn e_histogram_extended_bounds_memory_guard_overflow() {
    let index = index_with(&[]).unwrap();
    let req = r#"{"h": {"histogram": {"field": "score", "interval": 1.0, "extended_bounds": {"min": 0.0, "max": 1152921504606846976.0}}}}"#;
    match run(&index, req) {
        Ok(v) => println!("E: Ok({})", v.to_string().len()),
        Err(e) => println!("E: Err({e})"),
    }
}

// Recorded runs: see the end of this file.
use serde_json::Value;
use tantivy::aggregation::agg_req::Aggregations;
use tantivy::aggregation::AggregationCollector;
use tantivy::query::AllQuery;
use tantivy::schema::{Schema, FAST};
use tantivy::{doc, Index, IndexWriter};

fn index_with(values: &[u64]) -> tantivy::Result<Index> {
    let mut schema_builder = Schema::builder();
    let score = schema_builder.add_u64_field("score", FAST);
    let index = Index::create_in_ram(schema_builder.build());
    let mut writer: IndexWriter = index.writer_with_num_threads(1, 20_000_000)?;
    for v in values {
        writer.add_document(doc!(score => *v))?;
    }
    writer.commit()?;
    Ok(index)
}

fn run(index: &Index, req: &str) -> tantivy::Result<Value> {
    let agg_req: Aggregations = serde_json::from_str(req).unwrap();
    let collector = AggregationCollector::from_aggs(agg_req, Default::default());
    let searcher = index.reader()?.searcher();
    let res = searcher.search(&AllQuery, &collector)?;
    Ok(serde_json::to_value(res).unwrap())
}

#[test]
fn a_empty_ranges_is_an_error_not_a_panic() {
    let index = index_with(&[3, 7, 10, 12]).unwrap();
    // expected: Ok(..) with no bucket, or Err(InvalidArgument); a panic inside the collector fails this test
    match run(&index, r#"{"r": {"range": {"field": "score", "ranges": []}}}"#) {
        Ok(v) => println!("A: Ok({v})"),
        Err(e) => println!("A: Err({e})"),
    }
}

#[test]
fn b_reversed_range_bucket_is_empty() {
    let index = index_with(&[3, 7, 10, 12]).unwrap();
    let v = run(&index, r#"{"r": {"range": {"field": "score", "ranges": [{"from": 10.0, "to": 5.0}]}}}"#).unwrap();
    println!("B: {v}");
    let buckets = v["r"]["buckets"].as_array().unwrap();
    for b in buckets {
        let from = b.get("from").and_then(|x| x.as_f64());
        let to = b.get("to").and_then(|x| x.as_f64());
        let direct = [3u64, 7, 10, 12]
            .iter()
            .filter(|&&x| from.map_or(true, |f| (x as f64) >= f) && to.map_or(true, |t| (x as f64) < t))
            .count() as u64;
        assert_eq!(
            b["doc_count"].as_u64().unwrap(),
            direct,
            "bucket {} (from {:?} to {:?}): doc_count differs from the direct computation over [3, 7, 10, 12]",
            b["key"], from, to
        );
    }
}

// Recorded run (2026-09-26, this sandbox, unmodified /repo tree f9fc5ad):
//   test a_empty_ranges_is_an_error_not_a_panic ... FAILED
//     thread panicked at src/aggregation/bucket/range.rs:502:25: index out of bounds: the len is 0 but the index is 0
//   test b_reversed_range_bucket_is_empty ... FAILED
//     B: {"r":{"buckets":[{"doc_count":2,"key":"*-10","to":10.0},{"doc_count":2,"from":5.0,"key":"5-*"},{"doc_count":0,"from":10.0,"key":"10-5","to":5.0}]}}
//     bucket "5-*" (from Some(5.0) to None): doc_count differs from the direct computation over [3, 7, 10, 12]  left: 2  right: 3
//   test c_terms_size_above_u32_max_div_10 ... FAILED (debug profile)
//     thread panicked at src/aggregation/bucket/term_agg/mod.rs:320:59: attempt to multiply with overflow
//   test d_empty_range_duplicate_start ... ok   (rustc 1.95.0; value 5 counted in "5-10", "5-5" stays 0)
//   test e_histogram_extended_bounds_memory_guard_overflow ... FAILED (debug profile)
//     thread panicked at src/aggregation/bucket/histogram/histogram.rs:797:9: attempt to multiply with overflow
//   same test, `cargo test --release --offline --test demo_range_agg_ranges e_hist`: FAILED
//     thread panicked at library/alloc/src/raw_vec/mod.rs:28:5: capacity overflow
//       3: alloc::raw_vec::handle_error  4: tantivy::aggregation::bucket::histogram::histogram::intermediate_histogram_buckets_to_final_buckets
//     (the wrapped product 2^60 * 48 = 0 passed `limits.add_memory_consumed`, then Vec::with_capacity(2^60 + 1) was attempted)
