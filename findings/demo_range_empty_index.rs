// Finding (C14, candidate defect; found by worker w14f while writing unit agg_final_tree): the EMPTY result of a range aggregation is not
// the result of aggregating zero documents.
//
// `empty_from_req` (src/aggregation/intermediate_agg_result.rs) builds, for a Range request, `IntermediateBucketResult::Range(Default::default())`:
// a bucket map with NO entry, which `into_final_bucket_result` turns into `"buckets": []`.  A segment collector, in contrast, always emits
// every requested range (and the two implicit open-ended ones) with doc_count 0 (SegmentRangeCollector::add_intermediate_aggregation_result).
// `empty_from_req` is used (a) by IntermediateAggregationResults::into_final_result_internal for every requested aggregation that has no
// intermediate result -- the case of an index without any segment (unit agg_final_tree proves that this is the ONLY thing that happens to a
// missing name: node_final(empty_of(req), ..)) -- and (b) as the sub-aggregation result of zero-count buckets (terms with min_doc_count 0,
// histogram gap filling).  So the same request over the same (empty) set of matching documents yields
//     one segment, query matches nothing:  "r": {"buckets": [{"key":"*-10","to":10.0,"doc_count":0,"s":{"value":0.0}}, {"key":"10-*","from":10.0,"doc_count":0,...}]}
//     no segment:                          "r": {"buckets": []}
// i.e. the result depends on how the (zero) documents are distributed over (zero or one) segments, and consumers that index the bucket
// list by position break on empty indexes / empty splits.  The histogram aggregation of the same request is consistent (gap filling from
// extended_bounds happens at finalisation), which is what a repaired Range arm would have to mirror (build the zero-count buckets from the
// request in empty_from_req or at finalisation).
//
// Ordinary integration test, public API only: copy into tests/ of a copy of the tree,
//   cargo test --offline --test demo_range_empty_index -- --nocapture
// Recorded 2026-09-26 on /repo: no_matching_document_same_result_with_or_without_segments ... FAILED (left: two zero-count buckets, right: [])
use serde_json::{json, Value};
use tantivy::aggregation::agg_req::Aggregations;
use tantivy::aggregation::AggregationCollector;
use tantivy::query::{AllQuery, TermQuery};
use tantivy::schema::{IndexRecordOption, Schema, FAST, STRING};
use tantivy::{doc, Index, IndexWriter, Term};

fn run(with_doc: bool) -> Value {
    let mut sb = Schema::builder();
    let v = sb.add_f64_field("v", FAST);
    let t = sb.add_text_field("t", STRING);
    let index = Index::create_in_ram(sb.build());
    let mut w: IndexWriter = index.writer_with_num_threads(1, 20_000_000).unwrap();
    if with_doc {
        w.add_document(doc!(v => 5.0, t => "a")).unwrap();
    }
    w.commit().unwrap();
    let aggs: Aggregations = serde_json::from_value(json!({
        "r": { "range": { "field": "v", "ranges": [ { "to": 10.0 }, { "from": 10.0 } ] }, "aggs": { "s": { "sum": { "field": "v" } } } },
        "h": { "histogram": { "field": "v", "interval": 10.0, "extended_bounds": { "min": 0.0, "max": 20.0 } } }
    })).unwrap();
    let collector = AggregationCollector::from_aggs(aggs, Default::default());
    let searcher = index.reader().unwrap().searcher();
    // query matching no document
    let q = TermQuery::new(Term::from_field_text(t, "zzz"), IndexRecordOption::Basic);
    let res = serde_json::to_value(searcher.search(&q, &collector).unwrap()).unwrap();
    println!("with_doc={with_doc} segments={} : {}", searcher.segment_readers().len(), res);
    let _ = AllQuery;
    res
}

#[test]
fn no_matching_document_same_result_with_or_without_segments() {
    let a = run(true);
    let b = run(false);
    assert_eq!(a, b);
}
