//! Native demonstration of the hypothesis that unit `sstable_streamer` states for `Streamer::term_ord()`:
//! the streamer counts ordinals by adding 1 per entry the `DeltaReader` produces (contract: ordinal = base + position in the
//! reader's run), which is only the dictionary ordinal if the reader runs over CONSECUTIVE blocks.  With a non-trivial automaton
//! `Dictionary::sstable_delta_reader_for_key_range` keeps only the blocks `get_block_for_automaton` says can match
//! (`DeltaReader::from_multiple_blocks`), so every skipped block makes all later ordinals too small.
//! Reached from `aggregation::agg_data::for_each_matching_term_ord` (terms aggregation `include`/`exclude` regex:
//! `str_col.dictionary().search(re).into_stream()` + `stream.term_ord()`).
//! Drop into `sstable/tests/` of a copy of the repository: `cargo test --offline -p tantivy-sstable --test demo_streamer_term_ord_skipped_blocks`.
use common::OwnedBytes;
use tantivy_sstable::{Dictionary, MonotonicU64SSTable};

#[test]
fn term_ord_of_automaton_stream_ignores_skipped_blocks() -> std::io::Result<()> {
    // 20_000 keys "00000000".."00019999" => several blocks; value = ordinal
    let mut builder = Dictionary::<MonotonicU64SSTable>::builder(Vec::new())?;
    for i in 0..20_000u64 {
        builder.insert(format!("{i:08}").as_bytes(), &i)?;
    }
    let dict = Dictionary::<MonotonicU64SSTable>::from_bytes(OwnedBytes::new(builder.finish()?))?;
    let key = format!("{:08}", 15_000u64);
    let mut stream = dict.search(tantivy_fst::Regex::new(&key).unwrap()).into_stream()?;
    assert!(stream.advance());
    assert_eq!(stream.key(), key.as_bytes());
    assert_eq!(stream.value(), &15_000u64);
    assert_eq!(dict.term_ord(key.as_bytes())?, Some(15_000));
    // observed on the pinned tree: left = 1755 (position inside the only block that was loaded), right = 15000
    assert_eq!(stream.term_ord(), 15_000);
    Ok(())
}
