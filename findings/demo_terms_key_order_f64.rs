// Finding (C14 "terms with ordering / size", candidate defect; found by worker w14f while reading
// IntermediateTermBucketResult::into_final_result for IntermediateBucketResult::into_final_bucket_result):
// a terms aggregation ordered by `_key` over a plain f64 fast field does not order its buckets numerically.
//
// Every f64 column value is turned into a bucket key through NumericalValue::normalize (src/aggregation/bucket/term_agg/mod.rs,
// into_intermediate_bucket_result: 7.0 => IntermediateKey::I64(7), 7.5 => IntermediateKey::F64(7.5)), and
// IntermediateTermBucketResult::into_final_result (src/aggregation/intermediate_agg_result.rs) sorts with
//     left.key.partial_cmp(&right.key)            // Key: #[derive(PartialOrd)] enum Key { Str, I64, U64, F64 }
// The derived order compares the VARIANT first (Str < I64 < U64 < F64) and the payload only inside one variant, so all integral values
// come before all fractional ones: values {8.0, 7.5, 7.0}, order {_key: asc} => [7, 8, 7.5]; desc => [7.5, 8, 7].
// With `size` the cut (cut_off_buckets, proved by unit terms_cutoff to keep the first `size` buckets OF THE SORTED LIST) then keeps the
// wrong buckets: size 2 asc => [7, 8] with sum_other_doc_count 1 instead of [7, 7.5].  The same happens for a JSON path with i64 and
// f64 values (one column type per segment) and for u64 values above i64::MAX next to smaller ones (I64 before U64 is numerically right,
// but I64/U64 before F64 is not).  The composite aggregation has an exact mixed-type comparison (num_cmp, unit composite_num_cmp);
// the terms aggregation does not use it.
// The unit terms_cutoff proves the sort/cut relative to the abstract key order `Key::partial_cmp`; that this order is the numeric order
// of the field values (what C14's "direct computation" prescribes) is what fails here.
//
// Ordinary integration test, public API only: copy into tests/ of a copy of the tree,
//   cargo test --offline --test demo_terms_key_order_f64 -- --nocapture --test-threads 1
// Recorded 2026-09-26 on /repo: control_all_fractional_or_all_integral ... ok; key_order_on_an_f64_field_is_numeric ... FAILED
//   (left [7.0, 8.0, 7.5]); key_order_desc_on_an_f64_field_is_numeric ... FAILED (left [7.5, 8.0, 7.0]);
//   size_cut_keeps_the_smallest_keys ... FAILED (left [7.0, 8.0], sum_other_doc_count 1)
use serde_json::{json, Value};
use tantivy::aggregation::agg_req::Aggregations;
use tantivy::aggregation::AggregationCollector;
use tantivy::query::AllQuery;
use tantivy::schema::{Schema, FAST};
use tantivy::{doc, Index, IndexWriter};

fn keys(values: &[f64], order: &str) -> Vec<f64> {
    let mut sb = Schema::builder();
    let v = sb.add_f64_field("v", FAST);
    let index = Index::create_in_ram(sb.build());
    let mut w: IndexWriter = index.writer_with_num_threads(1, 20_000_000).unwrap();
    for x in values {
        w.add_document(doc!(v => *x)).unwrap();
    }
    w.commit().unwrap();
    let aggs: Aggregations = serde_json::from_value(json!({ "t": { "terms": { "field": "v", "order": { "_key": order } } } })).unwrap();
    let collector = AggregationCollector::from_aggs(aggs, Default::default());
    let res: Value = serde_json::to_value(index.reader().unwrap().searcher().search(&AllQuery, &collector).unwrap()).unwrap();
    println!("order {order}: {}", res["t"]);
    res["t"]["buckets"].as_array().unwrap().iter().map(|b| b["key"].as_f64().unwrap()).collect()
}

#[test]
fn control_all_fractional_or_all_integral() {
    assert_eq!(keys(&[8.5, 7.25, 7.5], "asc"), vec![7.25, 7.5, 8.5]);
    assert_eq!(keys(&[8.0, 7.0, 9.0], "asc"), vec![7.0, 8.0, 9.0]);
}

#[test]
fn key_order_on_an_f64_field_is_numeric() {
    assert_eq!(keys(&[8.0, 7.5, 7.0], "asc"), vec![7.0, 7.5, 8.0]);
}

#[test]
fn key_order_desc_on_an_f64_field_is_numeric() {
    assert_eq!(keys(&[8.0, 7.5, 7.0], "desc"), vec![8.0, 7.5, 7.0]);
}

#[test]
fn size_cut_keeps_the_smallest_keys() {
    // size 2, order _key asc: the two smallest values are 7.0 and 7.5
    let mut sb = Schema::builder();
    let v = sb.add_f64_field("v", FAST);
    let index = Index::create_in_ram(sb.build());
    let mut w: IndexWriter = index.writer_with_num_threads(1, 20_000_000).unwrap();
    for x in [8.0, 7.5, 7.0] {
        w.add_document(doc!(v => x)).unwrap();
    }
    w.commit().unwrap();
    let aggs: Aggregations = serde_json::from_value(json!({ "t": { "terms": { "field": "v", "size": 2, "order": { "_key": "asc" } } } })).unwrap();
    let collector = AggregationCollector::from_aggs(aggs, Default::default());
    let res: Value = serde_json::to_value(index.reader().unwrap().searcher().search(&AllQuery, &collector).unwrap()).unwrap();
    println!("size 2: {}", res["t"]);
    let k: Vec<f64> = res["t"]["buckets"].as_array().unwrap().iter().map(|b| b["key"].as_f64().unwrap()).collect();
    assert_eq!(k, vec![7.0, 7.5]);
}
