// Candidate finding (C19 "the tokenizers never panic / offsets on char boundaries", unit split_compound_offsets).
// The unit proves split() panic-free under the ASSUMPTION that every aho-corasick match lies on char boundaries of the token
// text.  SplitCompoundWords::from_dictionary accepts any `AsRef<[u8]>` patterns; with a pattern that is not valid UTF-8
// (here the two bytes of 'é' as two one-byte patterns) the assumption is false: the match 0..1 ends inside the code point
// and SplitCompoundWordsTokenStream::split calls `text.split_at(1)`.
// Ordinary integration test, public API only: copy into tests/ of a copy of the tree,
//   cargo test --offline --test demo_split_compound_bytes
// Recorded 2026-09-25 on /repo: FAILED -- panicked at core/src/str/mod.rs (str::split_at, called from
//   src/tokenizer/split_compound_words.rs:149): "end byte index 1 is not a char boundary; it is inside 'é' (bytes 0..2) of `é`"
use tantivy::tokenizer::{RawTokenizer, SplitCompoundWords, TextAnalyzer};

#[test]
fn byte_pattern_dictionary_splits_inside_a_code_point() {
    let dict: Vec<&[u8]> = vec![b"\xc3", b"\xa9"];
    let mut analyzer = TextAnalyzer::builder(RawTokenizer::default())
        .filter(SplitCompoundWords::from_dictionary(dict).unwrap())
        .build();
    let mut stream = analyzer.token_stream("é");
    while let Some(t) = stream.next() {
        println!("{:?}", t);
    }
}
