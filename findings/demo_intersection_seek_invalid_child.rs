// Candidate finding (C13, unit docset_intersection_seek): Intersection::seek (src/query/intersection.rs) calls doc() / seek() on a child
// that seek_danger left in the "invalid" state.
// "Every DocSet ... any interleaving of advance, seek to any target not below the current document ... Once the end is reached every
// further call keeps reporting the end" -- seek(TERMINATED) on an exhausted scorer is a legal call (rustdoc of DocSet::seek: "Calling
// .seek(target) on a terminated DocSet is legal", "seek(TERMINATED) is also legal").
//
// Intersection::advance drives `right` and `others` with seek_danger.  When `right.seek_danger(candidate)` answers
// SeekLowerBound(TERMINATED) the loop ends and only `left` is moved to TERMINATED: the intersection now reports doc() == TERMINATED
// (a valid, exhausted doc-set for its caller) while `right` may be in the seek_danger "invalid" state (rustdoc of DocSet::seek_danger:
// "The DocSet should then only receives call to seek_danger(..) until it returns Found").  A following Intersection::seek(TERMINATED)
// builds `Vec<&mut dyn DocSet>` of ALL children and runs go_to_first_doc over it, i.e. calls `right.doc()` and `right.seek(TERMINATED)`.
// (Same class as the repaired BufferedUnionScorer::seek_danger defect, findings/demo_buffered_union_seek_danger.rs.)
// With the scorers in the tree the call is harmless as far as we could see (every child is sought to TERMINATED, the garbage doc() of the
// invalid child is dominated by left.doc() == TERMINATED); the demo therefore uses a child that CHECKS the documented protocol.
// Found by the Verus unit: the body of seek meets the shared DocSet contract only under the extra precondition kids_valid
// ("right and every other child are valid", implied by valid() whenever doc() < TERMINATED).
//
// NOT an integration test: `SeekDangerResult` is not exported by the crate (`mod docset` is private), so a DocSet overriding seek_danger
// can only live inside the crate.  Append this file to src/query/intersection.rs of a COPY of the tree and run
//   cargo test --offline --lib demo_intersection_seek_invalid_child -- --test-threads 1 --nocapture
// Recorded 2026-09-26 on a copy of the unchanged /repo (test profile):
//   control_advance_on_the_exhausted_intersection_is_fine                       ok
//   seek_terminated_on_an_exhausted_intersection_touches_an_invalid_child       FAILED  panicked at src/query/intersection.rs: "long: doc() called in the seek_danger invalid state"
#[cfg(test)]
mod demo_intersection_seek_invalid_child {
use crate::docset::{DocSet, SeekDangerResult, TERMINATED};
use crate::query::{intersect_scorers, Scorer};
use crate::{DocId, Score};

/// A sorted list of documents whose seek_danger uses the latitude the trait documents: on a miss it does NOT position the cursor,
/// answers a lower bound and is "invalid" until the next seek_danger hit.  doc() / seek() / advance() in the invalid state panic.
struct ProtocolChecking {
    docs: Vec<DocId>,
    cursor: usize,
    invalid: bool,
    name: &'static str,
}

impl ProtocolChecking {
    fn new(name: &'static str, docs: &[DocId]) -> Self {
        ProtocolChecking { docs: docs.to_vec(), cursor: 0, invalid: false, name }
    }
    fn cur(&self) -> DocId {
        self.docs.get(self.cursor).copied().unwrap_or(TERMINATED)
    }
}

impl DocSet for ProtocolChecking {
    fn advance(&mut self) -> DocId {
        assert!(!self.invalid, "{}: advance() called in the seek_danger invalid state", self.name);
        if self.cursor < self.docs.len() {
            self.cursor += 1;
        }
        self.cur()
    }
    fn doc(&self) -> DocId {
        assert!(!self.invalid, "{}: doc() called in the seek_danger invalid state", self.name);
        self.cur()
    }
    fn seek(&mut self, target: DocId) -> DocId {
        assert!(!self.invalid, "{}: seek({target}) called in the seek_danger invalid state", self.name);
        while self.cur() < target {
            self.cursor += 1;
        }
        self.cur()
    }
    fn seek_danger(&mut self, target: DocId) -> SeekDangerResult {
        if target < TERMINATED && self.docs.binary_search(&target).is_ok() {
            self.cursor = self.docs.binary_search(&target).unwrap();
            self.invalid = false;
            return SeekDangerResult::Found;
        }
        // miss: the first document above target (or TERMINATED) is a legal lower bound; the cursor is left where it was
        self.invalid = true;
        let lb = self.docs.iter().copied().find(|&d| d > target).unwrap_or(TERMINATED);
        SeekDangerResult::SeekLowerBound(lb)
    }
    fn size_hint(&self) -> u32 {
        self.docs.len() as u32
    }
}

impl Scorer for ProtocolChecking {
    fn score(&mut self) -> Score {
        1.0
    }
}

#[test]
fn seek_terminated_on_an_exhausted_intersection_touches_an_invalid_child() {
    // cost order = size_hint order: `short` becomes left, `long` becomes right
    let short = ProtocolChecking::new("short", &[1, 5]);
    let long = ProtocolChecking::new("long", &[1, 2, 3]);
    let mut inter = intersect_scorers(vec![Box::new(long), Box::new(short)], 10);
    assert_eq!(inter.doc(), 1);
    // left.seek(2) = 5; right.seek_danger(5) = SeekLowerBound(TERMINATED), right is now invalid; the intersection is exhausted
    assert_eq!(inter.advance(), TERMINATED);
    assert_eq!(inter.doc(), TERMINATED);
    // legal for every DocSet; panics inside go_to_first_doc: "long: doc() called in the seek_danger invalid state"
    assert_eq!(inter.seek(TERMINATED), TERMINATED);
}

#[test]
fn control_advance_on_the_exhausted_intersection_is_fine() {
    let short = ProtocolChecking::new("short", &[1, 5]);
    let long = ProtocolChecking::new("long", &[1, 2, 3]);
    let mut inter = intersect_scorers(vec![Box::new(long), Box::new(short)], 10);
    assert_eq!(inter.advance(), TERMINATED);
    assert_eq!(inter.advance(), TERMINATED);
    assert_eq!(inter.doc(), TERMINATED);
}
}
