//! Native demonstrations of the five defects repaired by `fix:` commits (F2, F3, F6, F7, F9 in /verif/known_findings.json).
//! Drop this file into `tests/` of a copy of the repository and run `cargo test --offline --test demo_fixed_defects`.
//! Every test FAILS on the tree before the fix commits and PASSES after them (see findings/README.md for the recorded runs).
use std::net::Ipv6Addr;
use std::ops::Bound;
use std::path::Path;

use tantivy::collector::Count;
use tantivy::directory::{ManagedDirectory, RamDirectory};
use tantivy::query::{BitSetDocSet, RangeQuery};
use tantivy::schema::{Schema, FAST, INDEXED};
use tantivy::{doc, DocSet, Index, IndexWriter, Term, TERMINATED};

/// F2 (C03): lower bound Excluded(ffff:..:ffff) must match nothing (it panicked / wrapped to the full range).
#[test]
fn f2_ip_range_exclusive_bound_at_end_of_address_space() {
    let mut schema_builder = Schema::builder();
    let ip_field = schema_builder.add_ip_addr_field("ip", FAST | INDEXED);
    let index = Index::create_in_ram(schema_builder.build());
    let mut writer: IndexWriter = index.writer(15_000_000).unwrap();
    for v in [1u128, 2, u128::MAX] {
        writer.add_document(doc!(ip_field => Ipv6Addr::from(v))).unwrap();
    }
    writer.commit().unwrap();
    let searcher = index.reader().unwrap().searcher();
    let q = RangeQuery::new(
        Bound::Excluded(Term::from_field_ip_addr(ip_field, Ipv6Addr::from(u128::MAX))),
        Bound::Unbounded,
    );
    let n = searcher.search(&q, &Count).unwrap();
    assert_eq!(n, 0, "nothing is greater than ffff:...:ffff");
    let q = RangeQuery::new(
        Bound::Unbounded,
        Bound::Excluded(Term::from_field_ip_addr(ip_field, Ipv6Addr::from(0u128))),
    );
    assert_eq!(searcher.search(&q, &Count).unwrap(), 0, "nothing is smaller than ::");
}

/// F9 (C13): once the end is reached every further call keeps reporting the end.
#[test]
fn f9_bitset_docset_end_is_sticky_after_seek() {
    let mut bitset = common::BitSet::with_max_value(100);
    bitset.insert(5);
    bitset.insert(70);
    let mut docset = BitSetDocSet::from(bitset);
    assert_eq!(docset.doc(), 5);
    assert_eq!(docset.seek(TERMINATED), TERMINATED);
    assert_eq!(docset.doc(), TERMINATED);
    assert_eq!(docset.advance(), TERMINATED, "advance() after the end must stay at the end");
    assert_eq!(docset.doc(), TERMINATED);
}

/// F7 (C20): a file of 4..7 bytes is corrupt: validate_checksum / open_read must return an error, not panic.
#[test]
fn f7_short_file_is_an_error_not_a_panic() {
    use std::io::Write;
    use tantivy::directory::{Directory, TerminatingWrite};
    let ram = RamDirectory::create();
    // write the 5-byte file behind the managed directory's back (no footer)
    let mut w = ram.open_write(Path::new("short.bin")).unwrap();
    w.write_all(&[1u8, 2, 3, 4, 5]).unwrap();
    w.terminate().unwrap();
    let managed = ManagedDirectory::wrap(Box::new(ram)).unwrap();
    let r = std::panic::catch_unwind(std::panic::AssertUnwindSafe(|| managed.validate_checksum(Path::new("short.bin"))));
    assert!(r.is_ok(), "validate_checksum panicked on a 5-byte file");
    assert!(r.unwrap().is_err(), "a 5-byte file cannot carry a footer: expected Err");
}
