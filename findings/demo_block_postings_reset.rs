//! Native demonstration of the precondition that unit `block_segment_postings` exposes on `BlockSegmentPostings::reset`
//! (public entry point: `InvertedIndexReader::reset_block_postings_from_terminfo`): unlike `open`, `reset` keeps the skip
//! reader's record option, so re-pointing a cursor opened on a JSON *text* term (skip entries with frequency bytes) at a JSON
//! *numerical* term of the same field (skip entries without them) mis-parses the skip list.
//! Drop into `tests/` of a copy of the repository: `cargo test --offline --test demo_block_postings_reset`.
use tantivy::schema::{IndexRecordOption, JsonObjectOptions, Schema, TextFieldIndexing};
use tantivy::{doc, Index, IndexWriter, Term};

fn all_docs(bp: &mut tantivy::postings::BlockSegmentPostings) -> Vec<u32> {
    let mut out = Vec::new();
    loop {
        let block = bp.docs();
        if block.is_empty() {
            return out;
        }
        out.extend_from_slice(block);
        bp.advance();
    }
}

fn build() -> (Index, tantivy::schema::Field) {
    let mut schema_builder = Schema::builder();
    let opts = JsonObjectOptions::default().set_indexing_options(
        TextFieldIndexing::default()
            .set_tokenizer("raw")
            .set_index_option(IndexRecordOption::WithFreqs),
    );
    let json_field = schema_builder.add_json_field("json", opts);
    let schema = schema_builder.build();
    let index = Index::create_in_ram(schema);
    let mut writer: IndexWriter = index.writer_with_num_threads(1, 20_000_000).unwrap();
    for _ in 0..300 {
        let json_val: serde_json::Value = serde_json::from_str(r#"{"a": "hello", "n": 7}"#).unwrap();
        writer.add_document(doc!(json_field => json_val)).unwrap();
    }
    writer.commit().unwrap();
    (index, json_field)
}

/// text term (skip entries of 8 bytes) first, then the number term (5 bytes): panics in the external block decoder
#[test]
fn reset_from_json_text_term_to_json_number_term() {
    let (index, json_field) = build();
    let searcher = index.reader().unwrap().searcher();
    assert_eq!(searcher.segment_readers().len(), 1);
    let segment_reader = searcher.segment_reader(0u32);
    let inv = segment_reader.inverted_index(json_field).unwrap();
    let mut text_term = Term::from_field_json_path(json_field, "a", false);
    text_term.append_type_and_str("hello");
    let mut num_term = Term::from_field_json_path(json_field, "n", false);
    num_term.append_type_and_fast_value(7i64);
    let text_info = inv.get_term_info(&text_term).unwrap().expect("text term");
    let num_info = inv.get_term_info(&num_term).unwrap().expect("number term");
    assert_eq!(text_info.doc_freq, 300);
    assert_eq!(num_info.doc_freq, 300);
    let expected: Vec<u32> = (0..300).collect();
    // opened directly, both lists are read correctly
    let mut fresh = inv.read_block_postings_from_terminfo(&num_info, IndexRecordOption::WithFreqs).unwrap();
    assert_eq!(all_docs(&mut fresh), expected);
    let mut cursor = inv.read_block_postings_from_terminfo(&text_info, IndexRecordOption::WithFreqs).unwrap();
    assert_eq!(all_docs(&mut cursor), expected);
    // the same cursor re-pointed at the numerical term
    inv.reset_block_postings_from_terminfo(&num_info, &mut cursor).unwrap();
    assert_eq!(all_docs(&mut cursor), expected, "reset() cursor must enumerate the number term's documents");
}

/// number term first (open() falls back to Basic: 5-byte entries), then the text term (8-byte entries)
#[test]
fn reset_from_json_number_term_to_json_text_term() {
    let (index, json_field) = build();
    let searcher = index.reader().unwrap().searcher();
    let segment_reader = searcher.segment_reader(0u32);
    let inv = segment_reader.inverted_index(json_field).unwrap();
    let mut text_term = Term::from_field_json_path(json_field, "a", false);
    text_term.append_type_and_str("hello");
    let mut num_term = Term::from_field_json_path(json_field, "n", false);
    num_term.append_type_and_fast_value(7i64);
    let text_info = inv.get_term_info(&text_term).unwrap().expect("text term");
    let num_info = inv.get_term_info(&num_term).unwrap().expect("number term");
    let expected: Vec<u32> = (0..300).collect();
    let mut cursor = inv.read_block_postings_from_terminfo(&num_info, IndexRecordOption::WithFreqs).unwrap();
    assert_eq!(all_docs(&mut cursor), expected);
    inv.reset_block_postings_from_terminfo(&text_info, &mut cursor).unwrap();
    assert_eq!(all_docs(&mut cursor), expected, "reset() cursor must enumerate the text term's documents");
}
