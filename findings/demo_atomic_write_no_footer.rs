// Observation recorded by unit managed_directory_footer (C20): "Every file written through the index directory ends with
// a footer carrying the format version and a checksum of its content" holds for the open_write path only.
// ManagedDirectory::atomic_write (meta.json, .managed.json) stores exactly the caller's bytes: no footer, no checksum, no
// format version; atomic_read returns them unchanged (no version gate); validate_checksum / open_read on such a file fail
// at footer extraction.  By design in tantivy (see the comment in ManagedDirectory::wrap), but it is outside the literal
// statement of C20.  Placement: tests/demo_atomic_write_no_footer.rs of the root crate;
// `cargo test --offline --test demo_atomic_write_no_footer`.
use std::io::Write;
use std::path::Path;

use tantivy::directory::{Directory, ManagedDirectory, RamDirectory, TerminatingWrite};

#[test]
fn open_write_files_have_a_footer_atomic_write_files_do_not() {
    let ram = RamDirectory::create();
    let managed = ManagedDirectory::wrap(Box::new(ram.clone())).unwrap();

    // open_write: content ++ footer is stored, open_read strips it, the checksum validates
    let seg = Path::new("seg.idx");
    let mut w = managed.open_write(seg).unwrap();
    w.write_all(b"abc").unwrap();
    w.terminate().unwrap();
    let raw = ram.open_read(seg).unwrap().read_bytes().unwrap();
    assert!(raw.len() > 3 && &raw.as_slice()[..3] == b"abc");
    assert_eq!(managed.open_read(seg).unwrap().read_bytes().unwrap().as_slice(), b"abc");
    assert!(managed.validate_checksum(seg).unwrap());

    // atomic_write: exactly the data is stored -- no footer
    let meta = Path::new("meta.json");
    managed.atomic_write(meta, b"{}").unwrap();
    assert_eq!(ram.atomic_read(meta).unwrap(), b"{}".to_vec());
    assert_eq!(managed.atomic_read(meta).unwrap(), b"{}".to_vec());
    // it is a managed file all the same ...
    assert!(managed.list_managed_files().contains(meta));
    // ... but it has no checksum to validate and cannot be opened through the footer-checking read path
    assert!(managed.validate_checksum(meta).is_err());
    assert!(managed.open_read(meta).is_err());
}
