// STATUS 2026-09-26: REPAIRED by the /repo commit "fix: union seek_danger left sub-docsets in an invalid state ..." (seek_danger no longer forwards seek_danger to the sub-docsets, it relies on seek); this demo now PASSES (4/4 ok, test profile) on the current /repo and unit buffered_union_extras verifies the new body against the shared contract without O1/O2.  The text below describes the tree BEFORE that commit.
// Candidate finding (C13 / C03, unit buffered_union_extras): BufferedUnionScorer::seek_danger (src/query/union/buffered_union.rs)
// "Every DocSet is one sorted sequence under any mix of advance and seek" / "a boolean query matches exactly the documents its
// clauses describe, and the answer is the same for counting, collecting and ranking".
//
// seek_danger's out-of-horizon path (target >= window_start_doc + 4096) forwards seek_danger(target) to the children until one
// answers Found, then calls self.seek(target) "to bring the union back to a valid state".  A child that answered SeekLowerBound
// before the hit may be in the seek_danger "invalid" state (rustdoc of DocSet::seek_danger: it "should then only receive calls to
// seek_danger(..) until it returns Found").  self.seek(target) nevertheless calls doc() / seek() on every child, and refill() then
// buffers each child's doc() as a member of the union and adds the child's score() to that document's score slot.
//   * child = Intersection(l, r) (nested `+l +r`), l has a document d in (target, target + 4096) that r does not have:
//     l.seek_danger(target) moves l to d and answers SeekLowerBound(d), the Intersection returns without touching r, its doc() is
//     now d although d is not in the intersection; another child hits `target`; refill() buffers d  ==>  the union reports d.
//   * same child, l HAS `target` but r has not: the Intersection's doc() == target, refill() adds Intersection::score()
//     (= l.score() + r.score() with r parked on another document) to the score of `target`.
// The union is reached through seek_danger whenever it is the non-driving leg of an Intersection (`+x +(..should clauses..)`) or an
// exclusion set (`x -(..)`): BooleanWeight builds BufferedUnionScorer<Box<dyn Scorer>> over arbitrary sub-scorers.
// Second, debug builds only: the same path forwards `target` to children whose doc() is already beyond it;
// PhraseScorer::seek_danger asserts debug_assert!(target >= self.doc()).
// (Found by the Verus unit: the children's `valid` needed by doc()/seek() after a SeekLowerBound answer, and the children's
//  `dmin <= target`, cannot be established; the body verifies against the shared contract exactly under the caller obligations
//  O1 "target >= doc()" and O2 "children never become invalid (they inherit the default seek_danger)": unit buffered_union_extras.)
//
// Ordinary integration test, public API only: copy into tests/ of a copy of the tree,
//   cargo test --offline --test demo_buffered_union_seek_danger -- --test-threads 1 --nocapture      (add --release for the release profile)
// Recorded 2026-09-26 on the unchanged /repo (test profile = debug assertions on / release profile):
//   must_and_union_of_intersection_reports_a_document_outside_the_union     FAILED / FAILED  docset=[0, 5000, 5001] count=3 ranked={0, 5000, 5001}, expected [0, 5000]
//   must_not_union_of_intersection_excludes_a_document_outside_the_union    FAILED / FAILED  docset=[] count=0, expected [5001]
//   score_of_a_document_includes_a_clause_that_does_not_match_it            FAILED / FAILED  score(doc 5000) = 14.858508, `+x +b` and explain() say 7.4852657
//   must_and_union_of_phrases_trips_the_phrase_scorer_debug_assertion       FAILED / ok      panicked at src/query/phrase_query/phrase_scorer.rs:549:9: target (5000) should be greater than or equal to doc (9000)
use std::collections::BTreeSet;

use tantivy::collector::{Count, DocSetCollector, TopDocs};
use tantivy::query::{BooleanQuery, Occur, Query, TermQuery};
use tantivy::schema::{Field, IndexRecordOption, Schema, TEXT};
use tantivy::{doc, DocAddress, Index, IndexWriter, Searcher, Term};

const NUM_DOCS: u32 = 8002;

// one segment, doc id == insertion rank; `words(d)` is the text of document d
fn searcher_for(words: impl Fn(u32) -> String) -> (Searcher, Field) {
    let mut schema_builder = Schema::builder();
    let text = schema_builder.add_text_field("text", TEXT);
    let index = Index::create_in_ram(schema_builder.build());
    let mut writer: IndexWriter = index.writer_with_num_threads(1, 50_000_000).unwrap();
    for d in 0..NUM_DOCS {
        writer.add_document(doc!(text => words(d))).unwrap();
    }
    writer.commit().unwrap();
    let searcher = index.reader().unwrap().searcher();
    assert_eq!(searcher.segment_readers().len(), 1);
    (searcher, text)
}

fn term(text: Field, t: &str) -> Box<dyn Query> {
    Box::new(TermQuery::new(Term::from_field_text(text, t), IndexRecordOption::WithFreqs))
}

fn boolq(clauses: Vec<(Occur, Box<dyn Query>)>) -> Box<dyn Query> {
    Box::new(BooleanQuery::new(clauses))
}

fn doc_ids(searcher: &Searcher, q: &dyn Query) -> Vec<u32> {
    let set: BTreeSet<DocAddress> = searcher.search(q, &DocSetCollector).unwrap().into_iter().collect();
    set.into_iter().map(|a| a.doc_id).collect()
}

// l = {0, 4500, 5001, 7000}   r = {0, 4500, 7000, 8000, 8001}   b = {5000}   x = {0, 5000, 5001}
// (+l +r) = {0, 4500, 7000};  ((+l +r) b) = {0, 4500, 5000, 7000};  document 5001 holds l and x only.
fn phantom_corpus(d: u32) -> String {
    let mut w = vec!["z"];
    if [0, 4500, 5001, 7000].contains(&d) { w.push("l"); }
    if [0, 4500, 7000, 8000, 8001].contains(&d) { w.push("r"); }
    if d == 5000 { w.push("b"); }
    if [0, 5000, 5001].contains(&d) { w.push("x"); }
    w.join(" ")
}

fn inner_union(text: Field) -> Box<dyn Query> {
    boolq(vec![
        (Occur::Should, boolq(vec![(Occur::Must, term(text, "l")), (Occur::Must, term(text, "r"))])),
        (Occur::Should, term(text, "b")),
    ])
}

// +x +((+l +r) b)  must match {0, 5000}
#[test]
fn must_and_union_of_intersection_reports_a_document_outside_the_union() {
    let (searcher, text) = searcher_for(phantom_corpus);
    // control: the union alone is right
    assert_eq!(doc_ids(&searcher, &*inner_union(text)), vec![0, 4500, 5000, 7000]);
    let q = boolq(vec![(Occur::Must, term(text, "x")), (Occur::Must, inner_union(text))]);
    let docset = doc_ids(&searcher, &*q);
    let count = searcher.search(&*q, &Count).unwrap();
    let ranked: BTreeSet<u32> = searcher
        .search(&*q, &TopDocs::with_limit(10).order_by_score())
        .unwrap()
        .into_iter()
        .map(|(_score, a)| a.doc_id)
        .collect();
    println!("+x +((+l +r) b): docset={docset:?} count={count} ranked={ranked:?}  expected [0, 5000]");
    assert_eq!(docset, vec![0, 5000], "DocSetCollector");
    assert_eq!(count, 2, "Count");
    assert_eq!(ranked.into_iter().collect::<Vec<_>>(), vec![0, 5000], "TopDocs");
}

// x -((+l +r) b)  must match {5001}
#[test]
fn must_not_union_of_intersection_excludes_a_document_outside_the_union() {
    let (searcher, text) = searcher_for(phantom_corpus);
    let q = boolq(vec![(Occur::Must, term(text, "x")), (Occur::MustNot, inner_union(text))]);
    let docset = doc_ids(&searcher, &*q);
    let count = searcher.search(&*q, &Count).unwrap();
    println!("+x -((+l +r) b): docset={docset:?} count={count}  expected [5001]");
    assert_eq!(docset, vec![5001], "DocSetCollector");
    assert_eq!(count, 1, "Count");
}

// score variant: document 5000 holds x, b and l (not r).  (+l +r) does not match it, so in
// +x +((+l +r) b) its score must be score(x) + score(b) == its score in  +x +b.
// l = {0, 4500, 5000, 7000}   r = {0, 4500, 7000, 8000, 8001}   b = {5000}   x = {0, 5000}
fn score_corpus(d: u32) -> String {
    let mut w = vec!["z"];
    if [0, 4500, 5000, 7000].contains(&d) { w.push("l"); }
    if [0, 4500, 7000, 8000, 8001].contains(&d) { w.push("r"); }
    if d == 5000 { w.push("b"); }
    if [0, 5000].contains(&d) { w.push("x"); }
    w.join(" ")
}

#[test]
fn score_of_a_document_includes_a_clause_that_does_not_match_it() {
    let (searcher, text) = searcher_for(score_corpus);
    let score_of = |q: &dyn Query, doc: u32| -> f32 {
        searcher
            .search(q, &TopDocs::with_limit(10).order_by_score())
            .unwrap()
            .into_iter()
            .find(|(_s, a)| a.doc_id == doc)
            .map(|(s, _)| s)
            .expect("document 5000 matches")
    };
    let q = boolq(vec![(Occur::Must, term(text, "x")), (Occur::Must, inner_union(text))]);
    let reference = boolq(vec![(Occur::Must, term(text, "x")), (Occur::Must, term(text, "b"))]);
    let got = score_of(&*q, 5000);
    let want = score_of(&*reference, 5000);
    let explained = q.explain(&searcher, DocAddress::new(0, 5000)).unwrap().value();
    println!("score of doc 5000: +x +((+l +r) b) = {got}   +x +b = {want}   explain = {explained}");
    assert_eq!(got, want, "score(doc 5000)");
}

// debug-build only: PhraseScorer::seek_danger carries debug_assert!(target >= self.doc()); the union's out-of-horizon path
// forwards the target to children that are already beyond it.
// "a b" = {10} + 9000..=9200   "c d" = {20}   x = {10, 5000}
fn phrase_corpus(d: u32) -> String {
    let mut w = vec!["z"];
    if d == 10 || (9000..=9200).contains(&d) { w.extend(["a", "b"]); }
    if d == 20 { w.extend(["c", "d"]); }
    if [10, 5000].contains(&d) { w.push("x"); }
    w.join(" ")
}

fn phrase(text: Field, a: &str, b: &str) -> Box<dyn Query> {
    Box::new(tantivy::query::PhraseQuery::new(vec![Term::from_field_text(text, a), Term::from_field_text(text, b)]))
}

#[test]
fn must_and_union_of_phrases_trips_the_phrase_scorer_debug_assertion() {
    let mut schema_builder = Schema::builder();
    let text = schema_builder.add_text_field("text", TEXT);
    let index = Index::create_in_ram(schema_builder.build());
    let mut writer: IndexWriter = index.writer_with_num_threads(1, 50_000_000).unwrap();
    for d in 0..9201u32 {
        writer.add_document(doc!(text => phrase_corpus(d))).unwrap();
    }
    writer.commit().unwrap();
    let searcher = index.reader().unwrap().searcher();
    let union = boolq(vec![(Occur::Should, phrase(text, "a", "b")), (Occur::Should, phrase(text, "c", "d"))]);
    let q = boolq(vec![(Occur::Must, term(text, "x")), (Occur::Must, union)]);
    assert_eq!(doc_ids(&searcher, &*q), vec![10]);
}
