// Finding (C06, unit topn_computer): "ties on equal keys broken by ascending document address".
//
// TopNComputer (src/collector/top_score_collector.rs) resolves ties on the sort key by document address ONLY IF the entries are
// pushed in ascending address order: `push` drops every entry whose key does not strictly beat the threshold, the threshold "does not
// include the DocId or DocAddress" (struct doc: "NOTE: Items must be `push`ed to the TopNComputer in ascending DocId|DocAddress order").
// The per-segment collection honours that.  The MERGE does not: TopBySortKeySegmentCollector::harvest returns
// `topn_computer.into_vec()` ("the top n elements in stored order", i.e. in whatever order select_nth_unstable_by left them) and
// merge_top_k (src/collector/sort_key_top_collector.rs) pushes the concatenated segment fruits, in that order, into a second
// TopNComputer of the same size.  When that second computer truncates in the middle of a segment's fruit, a later entry of the same
// fruit with the threshold's key and a SMALLER address is dropped although it precedes a kept entry.
//
// The Verus unit topn_computer proves the tie rule of TopNComputer under the precondition "pushes in strictly ascending doc order"
// (doc_after) and shows why it is needed (lemma_step_drop); merge_top_k does not establish it.
//
// Ordinary integration test, public API only: copy into tests/ of a copy of the tree,
//   cargo test --offline --test demo_topdocs_merge_tie_break -- --nocapture
// FIXED in /repo afterwards (commit "fix: TopDocs merge across segments broke ties on equal sort keys by push order instead of doc address":
// merge_top_k collects the items and sorts them by doc before the push loop); unit topn_for_segment now proves merge_top_k against the
// ascending-push precondition and its mutant merge_sort_removed.patch restores the defect.  (This test was not re-run after the fix.)
// Recorded 2026-09-26 on /repo BEFORE the fix:
//   top9_by_fast_field_breaks_ties_by_ascending_address  FAILED
//     9th hit returned: (Some(1), DocAddress { segment_ord: 2, doc_id: 2 })
//     9th entry of the complete list: (Some(1), DocAddress { segment_ord: 2, doc_id: 0 })   (same key, smaller address, not returned at all)
//   (the same query with limit 1000 returns the complete list in the documented order: the sanity assert passes)
// Found by simulating collect_segment_top_k + merge_top_k with the public TopNComputer on random inputs (129 of 400000 random
// configurations with k <= 9 differ; all need a buffer > 16 entries so that select_nth_unstable_by really permutes).
use tantivy::collector::TopDocs;
use tantivy::query::TermQuery;
use tantivy::schema::{IndexRecordOption, Schema, FAST, STRING};
use tantivy::{doc, DocAddress, Index, IndexWriter, Order, Term};

const SEGMENTS: [&[u64]; 4] = [
    &[0, 1, 1, 1, 1],
    &[0, 0, 1, 1, 0, 0, 1, 1, 0],
    &[1, 0, 1, 1, 1, 0, 1, 1, 1, 0, 0, 0, 0, 0, 1, 1, 0, 0, 1, 1, 1, 1, 1, 0, 0, 1, 0, 0, 1, 0, 0, 1, 1, 1, 0],
    &[1, 1, 0, 1, 0, 0, 0, 1, 1, 0, 1, 0, 1, 0, 0, 1, 1, 1, 0, 0, 0, 1, 1, 1, 1, 0, 0, 0, 1, 1, 0, 0, 1, 0, 0, 0],
];

// Searcher lists segments by decreasing max_doc: non-matching padding documents make the four segments come in the order of SEGMENTS.
const PADDING: [usize; 4] = [100, 80, 20, 0];

#[test]
fn top9_by_fast_field_breaks_ties_by_ascending_address() {
    let mut sb = Schema::builder();
    let f = sb.add_u64_field("f", FAST);
    let m = sb.add_text_field("m", STRING);
    let index = Index::create_in_ram(sb.build());
    let mut w: IndexWriter = index.writer_with_num_threads(1, 20_000_000).unwrap();
    w.set_merge_policy(Box::new(tantivy::merge_policy::NoMergePolicy));
    for (seg, pad) in SEGMENTS.iter().zip(PADDING) {
        for v in seg.iter() {
            w.add_document(doc!(f => *v, m => "yes")).unwrap();
        }
        for _ in 0..pad {
            w.add_document(doc!(f => 7u64, m => "no")).unwrap();
        }
        w.commit().unwrap();
    }
    let searcher = index.reader().unwrap().searcher();
    let sizes: Vec<u32> = searcher.segment_readers().iter().map(|sr| sr.max_doc()).collect();
    assert_eq!(sizes, [105, 89, 55, 36]);
    // the complete result list of the query m:yes : key descending, ties by ascending DocAddress
    let mut all: Vec<(Option<u64>, DocAddress)> = Vec::new();
    for (ord, sr) in searcher.segment_readers().iter().enumerate() {
        let col = sr.fast_fields().u64("f").unwrap();
        for d in 0..SEGMENTS[ord].len() as u32 {
            all.push((col.first(d), DocAddress::new(ord as u32, d)));
        }
    }
    all.sort_by(|a, b| b.0.cmp(&a.0).then(a.1.cmp(&b.1)));
    let query = TermQuery::new(Term::from_field_text(m, "yes"), IndexRecordOption::Basic);
    let got: Vec<(Option<u64>, DocAddress)> = searcher
        .search(&query, &TopDocs::with_limit(9).order_by_fast_field::<u64>("f", Order::Desc))
        .unwrap();
    // sanity: a limit that never truncates returns the reference list
    let full: Vec<(Option<u64>, DocAddress)> = searcher
        .search(&query, &TopDocs::with_limit(1000).order_by_fast_field::<u64>("f", Order::Desc))
        .unwrap();
    assert_eq!(full, all);
    println!("got  {:?}", got);
    println!("want {:?}", &all[..9]);
    assert_eq!(got, all[..9].to_vec(), "top 9 is not the first 9 entries of the complete list");
}
