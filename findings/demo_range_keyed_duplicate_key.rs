// Observation (C14, low severity; found by worker w16a while writing unit agg_final_nodes): the KEYED output of a range aggregation loses a
// bucket when two request ranges carry the same custom `key`.
//
// `IntermediateBucketResult::into_final_bucket_result` (src/aggregation/intermediate_agg_result.rs), Range arm, builds the keyed output by
// `bucket_map.insert(bucket.key.to_string(), bucket)` over the sorted bucket list: buckets with equal key strings overwrite each other (the
// one with the larger `from` wins).  Unit agg_final_nodes proves "one map entry per bucket" only under the hypothesis that the key strings are
// pairwise different (`keys_distinct`); nothing validates the request (custom keys are free text), so
//     {"ranges": [{"key": "k", "to": 10.0}, {"key": "k", "from": 10.0}], "keyed": false}  ->  two buckets "k" (doc_count 1 and 2)
//     the same request with "keyed": true                                                ->  ONE bucket "k" (doc_count 2): a document vanished
// The intermediate map is keyed by the range text ("*-10", "10-*"), so merging is not affected; only the final keyed rendering is.
// (Elasticsearch renders duplicate keys as repeated JSON members; a request validation error would be the other consistent choice.)
//
// Ordinary integration test, public API only: copy into tests/ of a copy of the tree,
//   cargo test --offline --test demo_range_keyed_duplicate_key -- --nocapture
// Recorded 2026-09-26 on /repo: keyed=false: two buckets "k" (doc_count 1, 2); keyed=true: {"k":{"doc_count":2,"from":10.0}} -> FAILED (left: 2, right: 3)
use serde_json::{json, Value};
use tantivy::aggregation::agg_req::Aggregations;
use tantivy::aggregation::AggregationCollector;
use tantivy::query::AllQuery;
use tantivy::schema::{Schema, FAST};
use tantivy::{doc, Index, IndexWriter};

fn run(keyed: bool) -> Value {
    let mut sb = Schema::builder();
    let v = sb.add_f64_field("v", FAST);
    let index = Index::create_in_ram(sb.build());
    let mut w: IndexWriter = index.writer_with_num_threads(1, 20_000_000).unwrap();
    for x in [5.0, 15.0, 25.0] {
        w.add_document(doc!(v => x)).unwrap();
    }
    w.commit().unwrap();
    let aggs: Aggregations = serde_json::from_value(json!({
        "r": { "range": { "field": "v", "keyed": keyed, "ranges": [ { "key": "k", "to": 10.0 }, { "key": "k", "from": 10.0 } ] } }
    })).unwrap();
    let collector = AggregationCollector::from_aggs(aggs, Default::default());
    let searcher = index.reader().unwrap().searcher();
    let res = serde_json::to_value(searcher.search(&AllQuery, &collector).unwrap()).unwrap();
    println!("keyed={keyed}: {res}");
    res
}

fn total(buckets: &Value) -> u64 {
    match buckets {
        Value::Array(a) => a.iter().map(|b| b["doc_count"].as_u64().unwrap()).sum(),
        Value::Object(m) => m.values().map(|b| b["doc_count"].as_u64().unwrap()).sum(),
        _ => panic!("unexpected"),
    }
}

#[test]
fn keyed_and_list_output_account_for_the_same_documents() {
    let list = run(false);
    let keyed = run(true);
    assert_eq!(total(&list["r"]["buckets"]), 3);
    assert_eq!(total(&keyed["r"]["buckets"]), 3, "keyed output lost a bucket");
}
