// STATUS: REPAIRED in /repo by commit "fix: top_hits aggregation panicked when `from` exceeds the number of hits"; main ran this demo on the repaired tree: all tests pass.
// The "Recorded" lines below are from the tree BEFORE the fix; unit top_hits_topn now proves the repaired code without the restriction
// (mutants final_drain_unbounded / merge_into_old_computer restore the defects and are caught).
// Finding (C14, unit top_hits_topn): top_hits with `from` larger than the number of documents of the bucket panics.
//
// TopHitsTopNComputer::into_final_result (src/aggregation/metric/top_hits.rs) ends with
//     hits.drain(..self.req.from.unwrap_or(0));
// `Vec::drain(..n)` panics when n > len.  `hits` holds min(size + from, #documents collected) entries, so every bucket that received
// fewer than `from` documents (an empty index, an empty bucket, a selective query) panics instead of returning no hits.
// The Verus unit top_hits_topn proves "drop the first `from`, keep the rest" under the explicit precondition from <= #entries.
//
// Ordinary integration test, public API only: copy into tests/ of a copy of the tree,
//   cargo test --offline --test demo_top_hits_from_panics -- --nocapture
// Recorded 2026-09-26 on /repo:
//   from_within_the_hits_is_fine ... ok
//   from_beyond_the_hits_returns_no_hits ... FAILED   panicked at core/src/slice/index.rs: range end index 3 out of range for slice of length 2
use serde_json::json;
use tantivy::aggregation::agg_req::Aggregations;
use tantivy::aggregation::AggregationCollector;
use tantivy::query::AllQuery;
use tantivy::schema::{Schema, FAST};
use tantivy::{doc, Index, IndexWriter};

fn run(num_docs: u64, from: usize) -> serde_json::Value {
    let mut sb = Schema::builder();
    let v = sb.add_u64_field("v", FAST);
    let index = Index::create_in_ram(sb.build());
    let mut w: IndexWriter = index.writer_with_num_threads(1, 20_000_000).unwrap();
    for i in 0..num_docs {
        w.add_document(doc!(v => i)).unwrap();
    }
    w.commit().unwrap();
    let searcher = index.reader().unwrap().searcher();
    let aggs: Aggregations = serde_json::from_value(json!({
        "hits": { "top_hits": { "size": 2, "from": from, "sort": [ { "v": "asc" } ], "docvalue_fields": ["v"] } }
    }))
    .unwrap();
    let collector = AggregationCollector::from_aggs(aggs, Default::default());
    let res = serde_json::to_value(searcher.search(&AllQuery, &collector).unwrap()).unwrap();
    println!("docs={num_docs} from={from}: {}", res["hits"]);
    res["hits"]["hits"].clone()
}

#[test]
fn from_within_the_hits_is_fine() {
    // 5 documents, from 3, size 2: the 4th and 5th
    assert_eq!(run(5, 3).as_array().unwrap().len(), 2);
    // 3 documents, from 3: nothing left
    assert_eq!(run(3, 3).as_array().unwrap().len(), 0);
}

#[test]
fn from_beyond_the_hits_returns_no_hits() {
    // 2 documents, from 3: expected no hits; panics in Vec::drain
    assert_eq!(run(2, 3).as_array().unwrap().len(), 0);
}
