//! C08, optional index (columnar/src/column_index/optional_index/mod.rs), found while proving unit `optional_index_reader`:
//! the block directory has ceil(num_rows / 65536) entries; for num_rows > 65535 * 65536 = 4_294_901_760 it has 65536 entries and
//! the two `.len() as u16` casts wrap to 0:
//!   * `OptionalIndex::find_block`:       `self.block_metas.len() as u16 - 1u16`  -> `0 - 1` (panic in debug, block 65535 in release)
//!   * `serialize_optional_index`:        `block_metadata.len() as u16`           -> 0 metadata entries announced when all 65536 blocks are non-empty
//! Legal inputs of the public columnar API (`num_rows: RowId = u32`, row ids strictly increasing and < num_rows); not reachable through
//! tantivy itself (a segment holds fewer than 2^31 documents).  The proof therefore carries the precondition `block_metas.len() <= 65535`
//! inside the format hypothesis `oi_holds`.
//!
//! drop into columnar/tests/ ; `cargo test --offline -p tantivy-columnar --test demo_optional_index_huge_num_docs`
//! recorded (2026-09-26, this sandbox, debug profile): both `huge_*` tests FAIL, the three control tests pass.
use tantivy_columnar::column_index::{OptionalIndex, Set};

fn check(num_rows: u32, rows: &[u32], probes: &[u32]) {
    let idx = OptionalIndex::for_test(num_rows, rows);
    assert_eq!(idx.num_docs(), num_rows);
    assert_eq!(idx.num_non_nulls() as usize, rows.len());
    for (rank, &d) in rows.iter().enumerate() {
        assert_eq!(idx.select(rank as u32), d, "select({rank})");
        assert_eq!(idx.rank_if_exists(d), Some(rank as u32), "rank_if_exists({d})");
        assert_eq!(idx.rank(d), rank as u32, "rank({d})");
        assert!(idx.contains(d));
    }
    for &p in probes {
        let expected_rank = rows.iter().filter(|&&r| r < p).count() as u32;
        assert_eq!(idx.rank(p), expected_rank, "rank({p})");
        let pos = rows.binary_search(&p).ok().map(|x| x as u32);
        assert_eq!(idx.rank_if_exists(p), pos, "rank_if_exists({p})");
        if p < num_rows {
            assert_eq!(idx.contains(p), pos.is_some(), "contains({p})");
        }
    }
    let mut ranks: Vec<u32> = (0..rows.len() as u32).collect();
    idx.select_batch(&mut ranks);
    assert_eq!(&ranks[..], rows);
}

/// FAILS: `select` panics with `attempt to subtract with overflow` at optional_index/mod.rs:325 (find_block).
#[test]
fn huge_num_docs_select() {
    let rows = [5u32, 70_000, 4_294_901_770];
    let idx = OptionalIndex::for_test(u32::MAX, &rows);
    assert_eq!(idx.num_non_nulls(), 3);
    assert_eq!(idx.rank(70_000), 1);
    assert_eq!(idx.rank_if_exists(4_294_901_770), Some(2));
    assert_eq!(idx.select(0), 5);
    assert_eq!(idx.select(1), 70_000);
    assert_eq!(idx.select(2), 4_294_901_770);
}

/// FAILS: one document in each of the 65536 blocks; the number of block metas is written as `65536 as u16 == 0`,
/// the reopened index reports `num_non_nulls() == 0` instead of 65536.
#[test]
fn huge_num_docs_all_blocks_non_empty() {
    let rows: Vec<u32> = (0..65536u32).map(|b| b * 65536 + 1).collect();
    let idx = OptionalIndex::for_test(u32::MAX, &rows);
    assert_eq!(idx.num_non_nulls(), 65536);
    assert_eq!(idx.rank(65536 + 2), 2);
}

// ---- controls (pass): the edge cases the proof covers under num_rows <= 65535 * 65536
/// block 0 full (65536 docs, dense, last mini-block rank 65472), blocks 1-2 empty, block 3 sparse, block 4 dense, blocks 5-6 empty (trailing).
#[test]
fn full_block_then_sparse_and_empty_blocks() {
    let mut rows: Vec<u32> = (0..65536).collect();
    rows.extend([3 * 65536, 3 * 65536 + 7, 4 * 65536 - 1]);
    rows.extend(4 * 65536..4 * 65536 + 6000);
    check(
        7 * 65536 - 5,
        &rows,
        &[0, 65535, 65536, 65537, 2 * 65536, 3 * 65536 - 1, 3 * 65536 + 1, 4 * 65536 + 6000, 5 * 65536, 6 * 65536 + 3,
          7 * 65536 - 6, 7 * 65536 - 5, 7 * 65536, u32::MAX],
    );
}

#[test]
fn two_full_blocks() {
    let rows: Vec<u32> = (0..2 * 65536).collect();
    check(2 * 65536, &rows, &[0, 65535, 65536, 2 * 65536 - 1, 2 * 65536, u32::MAX]);
}

#[test]
fn dense_block_last_miniblock() {
    let rows: Vec<u32> = (0..65536).filter(|&x| x != 100).collect();
    check(65536, &rows, &[100, 65535, 65536]);
}
