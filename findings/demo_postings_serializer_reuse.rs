//! Native demonstration of the precondition that unit `postings_serializer` exposes on `PostingsSerializer::new_term`
//! (`ps_fresh`: the delta base `last_doc_id_encoded` must be 0): `PostingsSerializer::close_term` resets the skip data, the
//! postings buffer and the BM25 weight but NOT `last_doc_id_encoded`, and the method that resets it (`clear`) is private.
//! `FieldSerializer::new_term` calls `clear()` itself, so indexing is not affected; a direct user of the public type
//! `tantivy::postings::serializer::PostingsSerializer` that serializes two terms in a row gets the second term encoded against
//! the last full block of the first one.
//! Drop into `tests/` of a copy of the repository: `cargo test --offline --test demo_postings_serializer_reuse`.
use tantivy::postings::serializer::PostingsSerializer;
use tantivy::schema::IndexRecordOption;

fn serialize_term(serializer: &mut PostingsSerializer, docs: &[u32]) -> Vec<u8> {
    let mut out: Vec<u8> = Vec::new();
    serializer.new_term(docs.len() as u32, false);
    for &doc in docs {
        serializer.write_doc(doc, 1);
    }
    serializer.close_term(docs.len() as u32, &mut out).unwrap();
    out
}

/// The bytes of a term must not depend on the terms serialized before it.
#[test]
fn second_term_is_encoded_like_a_first_term() {
    let first: Vec<u32> = (1000u32..1128u32).collect(); // one full block: its last doc (1127) becomes the delta base
    let second: Vec<u32> = vec![2000, 2004, 2010]; // VInt tail only
    let mut fresh = PostingsSerializer::new(0.0, IndexRecordOption::Basic, None);
    let expected = serialize_term(&mut fresh, &second);

    let mut reused = PostingsSerializer::new(0.0, IndexRecordOption::Basic, None);
    let _ = serialize_term(&mut reused, &first);
    let got = serialize_term(&mut reused, &second);
    // the reader decodes the VInt tail of a term with delta base 0: `got` decodes to 873, 877, 883 instead of 2000, 2004, 2010
    assert_eq!(expected, got);
}

/// With smaller doc ids in the second term the subtraction `doc - last_doc_id_encoded` underflows (panic in debug builds,
/// wrapped deltas in release builds).
#[test]
fn second_term_with_smaller_doc_ids() {
    let first: Vec<u32> = (1000u32..1128u32).collect();
    let second: Vec<u32> = vec![5, 9, 12];
    let mut fresh = PostingsSerializer::new(0.0, IndexRecordOption::Basic, None);
    let expected = serialize_term(&mut fresh, &second);

    let mut reused = PostingsSerializer::new(0.0, IndexRecordOption::Basic, None);
    let _ = serialize_term(&mut reused, &first);
    let got = serialize_term(&mut reused, &second);
    assert_eq!(expected, got);
}
