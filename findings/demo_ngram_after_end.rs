// Observation (C19, unit ngram_tokenizer): StutteringIterator::next is specified only while the iterator has not yet returned None
// (precondition si_inv).  The call that reports the end is fine; the NEXT call after the first `None` executes `self.max_gram -= 1`
// with max_gram == 0: overflow panic in debug builds; in release builds max_gram wraps to usize::MAX and next() starts returning
// pairs of stale ring entries again (advance() then emits tokens / slices the text at them).
// TokenStream::advance() is documented "Returns false if there are no other tokens"; nothing says it may not be called again.
//   cargo test --offline --test demo_ngram_after_end -- --nocapture
// Recorded 2026-09-26 on /repo, debug profile (overflow checks on):
//   advance_twice_after_the_end  FAILED  panicked at src/tokenizer/ngram_tokenizer.rs:251:17: attempt to subtract with overflow
//   (the panic is raised by the first advance() AFTER the one that returned false)
// release profile (`cargo test --release`): no panic, the stream comes back to life:
//   advance() #2 after the end = true
//   advance() #3 after the end = true, token = Token { offset_from: 1, offset_to: 1, position: 0, text: "", position_length: 1 }
use tantivy::tokenizer::{NgramTokenizer, TokenStream, Tokenizer};

#[test]
fn advance_twice_after_the_end() {
    let mut tokenizer = NgramTokenizer::new(1, 1, false).unwrap();
    let mut stream = tokenizer.token_stream("ab");
    assert!(stream.advance());
    assert_eq!(stream.token().text, "a");
    assert!(stream.advance());
    assert_eq!(stream.token().text, "b");
    assert!(!stream.advance());
    let third = stream.advance();
    println!("advance() #2 after the end = {third}");
    let fourth = stream.advance();
    println!("advance() #3 after the end = {fourth}, token = {:?}", stream.token());
    assert!(!third && !fourth);
}
