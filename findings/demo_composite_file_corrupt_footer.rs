// Candidate finding (unit composite_file_layout, variant `--define STRICT`; C20 context: damaged segment files).
// `CompositeFile::open` (src/directory/composite_file.rs) trusts its own trailer: it computes `end - 4`, then
// `end - 4 - footer_len`, accumulates the per-field offset deltas with `+=`, and never compares the offsets it decoded
// with the length of the body.  A file shorter than 4 bytes, a `footer_len` field larger than the file, or offsets that
// point behind the body therefore end in a panic (integer underflow / `combine_ranges` assertion in FileSlice::slice),
// in `open` or later in `open_read`, instead of an `Err` (the function returns io::Result and already reports a
// truncated footer as Err through VInt::deserialize).  Index::open / IndexReader do not validate checksums, so a segment
// whose composite trailer is damaged on disk takes the process down when the segment is opened; only
// `Index::validate_checksum` (C20 proper) reports the file.
// Ordinary integration test, public API only: copy into tests/ of a copy of the tree,
//   cargo test --offline --test demo_composite_file_corrupt_footer
// Recorded 2026-09-26 on a copy of /repo (test profile: overflow-checks on): 4 of 4 FAILED --
//   file_shorter_than_four_bytes: panicked at src/directory/composite_file.rs:113:47 "attempt to subtract with overflow";
//   footer_len_larger_than_the_file: panicked at src/directory/composite_file.rs:115:28 "attempt to subtract with overflow";
//   offset_behind_the_body: open returns Ok, open_read panicked at common/src/file_slice.rs:169:5 "assertion failed: start <= orig_range.end";
//   damaged_fieldnorm_trailer_of_a_committed_segment: Index::validate_checksum lists the file (assertion passed), then
//   Index::open(..).reader() panicked at src/directory/composite_file.rs:115:28 "attempt to subtract with overflow".
//   (Release profile: no overflow checks, the wrapped value reaches FileSlice::slice and trips combine_ranges' assertions instead.)
use std::panic::{catch_unwind, AssertUnwindSafe};

use tantivy::directory::{CompositeFile, Directory, FileSlice, RamDirectory};
use tantivy::schema::{Field, Schema, TEXT};
use tantivy::index::SegmentComponent;
use tantivy::{doc, Index, IndexWriter};

fn open_does_not_panic(bytes: Vec<u8>) -> bool {
    let file = FileSlice::from(bytes);
    catch_unwind(AssertUnwindSafe(|| {
        let _ = CompositeFile::open(&file);
    }))
    .is_ok()
}

#[test]
fn file_shorter_than_four_bytes() {
    // `end - 4` with end = 2
    assert!(open_does_not_panic(vec![1u8, 2u8]), "CompositeFile::open panicked on a 2-byte file");
}

#[test]
fn footer_len_larger_than_the_file() {
    // the whole file is the 4-byte length field, announcing a 0x7fffffff-byte footer: `end - 4 - footer_len`
    assert!(open_does_not_panic(vec![0xff, 0xff, 0xff, 0x7f]), "CompositeFile::open panicked on an oversized footer_len");
}

#[test]
fn offset_behind_the_body() {
    // empty body; footer = VInt(1 field) ++ VInt(delta 100) ++ Field(0) le32 ++ VInt(idx 0); footer_len = 7
    let bytes = vec![0x81, 0xE4, 0, 0, 0, 0, 0x80, 7, 0, 0, 0];
    let file = FileSlice::from(bytes);
    let composite = CompositeFile::open(&file).expect("open accepts the file");
    let res = catch_unwind(AssertUnwindSafe(|| composite.open_read(Field::from_field_id(0)).is_some()));
    assert!(res.is_ok(), "open accepted a field range 100..0 of an empty body and open_read panicked on it");
}

#[test]
fn damaged_fieldnorm_trailer_of_a_committed_segment() -> tantivy::Result<()> {
    let mut schema_builder = Schema::builder();
    let text = schema_builder.add_text_field("text", TEXT);
    let dir = RamDirectory::create();
    let index = Index::create(dir.clone(), schema_builder.build(), Default::default())?;
    let mut writer: IndexWriter = index.writer_with_num_threads(1, 20_000_000)?;
    writer.add_document(doc!(text => "hello world"))?;
    writer.commit()?;
    drop(writer);
    let meta = index.searchable_segment_metas()?.pop().unwrap();
    let path = meta.relative_path(SegmentComponent::FieldNorms);
    let mut bytes = dir.atomic_read(&path).unwrap();
    // file = composite body ++ composite footer ++ le32(composite footer_len) ++ json ++ le32(|json|) ++ le32(magic)
    let n = bytes.len();
    let json_len = u32::from_le_bytes(bytes[n - 8..n - 4].try_into().unwrap()) as usize;
    let at = n - 8 - json_len - 4;
    bytes[at..at + 4].copy_from_slice(&0x7fff_ffffu32.to_le_bytes());
    dir.atomic_write(&path, &bytes)?;
    // C20 proper: the checksum validation does report the file
    let damaged = index.validate_checksum()?;
    assert!(damaged.contains(&path), "validate_checksum misses the damaged file");
    // ... but opening the index for search does not validate checksums, and the segment open panics instead of failing
    let res = catch_unwind(AssertUnwindSafe(|| Index::open(dir.clone()).and_then(|index| index.reader().map(|_| ()))));
    assert!(res.is_ok(), "opening a reader over a segment with a damaged composite trailer panicked (expected Err)");
    Ok(())
}
