//! Candidate (C15, unit sstable_block_addr_writer, precondition `ba_lim`): the v3 block-address store WRITER accepts block
//! addresses whose spread inside one 128-entry metablock is >= 2^55 and silently writes a file that the READER cannot decode:
//! find_best_slope returns nbits = compute_num_bits(max deviation) + 1 = 57 (or 65), and extract_bits asserts num_bits <= 56.
//! In-crate test (SSTableIndexV3::load lives in a pub(crate) module): append this module to sstable/src/index/v3.rs, then
//! `cargo test --offline -p tantivy-sstable --lib demo_huge`.
//! Reachability: needs byte offsets / term ordinals >= 2^55 (32 PiB) in one sstable -- not reachable from real files; recorded as
//! the explicit precondition of the unit rather than as a defect.
#[cfg(test)]
mod demo_huge_offsets {
    use common::OwnedBytes;

    use super::*;
    use crate::SSTableIndexBuilder;

    fn roundtrip(second_end: usize) -> Option<BlockAddr> {
        let mut b = SSTableIndexBuilder::default();
        b.add_block(b"aaa", 0..10, 0u64);
        b.add_block(b"bbb", 10..second_end, 5u64);
        let mut buffer: Vec<u8> = Vec::new();
        let fst_len = b.serialize(&mut buffer).unwrap(); // the writer does not complain
        let index = SSTableIndexV3::load(OwnedBytes::new(buffer), fst_len).unwrap();
        index.get_block(1)
    }

    #[test]
    fn demo_huge_below_limit_roundtrips() {
        let end = (1usize << 55) - 1;
        assert_eq!(roundtrip(end), Some(BlockAddr { first_ordinal: 5, byte_range: 10..end }));
    }

    #[test]
    fn demo_huge_above_limit_reader_panics() {
        // spread 2^56: nbits = 57 > 56 => `assert!(num_bits <= 56)` in extract_bits fires on a file the writer produced
        let r = std::panic::catch_unwind(|| roundtrip(1usize << 56));
        assert!(r.is_err(), "expected the reader to panic on the writer's own output");
    }
}
