// Candidate finding (C19 / unit raw_regex_stemmer_tokens: behaviour of RegexTokenStream::advance on EMPTY matches).
// rustdoc of RegexTokenizer (src/tokenizer/regex_tokenizer.rs): "Each match of the regex emits a distinct token, empty tokens will
// not be emitted."  The code does not skip an empty match, it ENDS THE STREAM on it:
//     if regex_match.as_str().is_empty() { return false; }
// and since nothing is consumed, every later advance() finds the same empty match again.  All non-empty matches to the right of the
// first empty leftmost match are silently lost (not indexed, not searchable).  Proved in the unit: advance returns true IFF the
// leftmost match of the remaining text is non-empty; on false the stream state is unchanged.  Offsets of emitted tokens are fine
// (C19 offset clauses hold); what is lost is text.
// Patterns that can match the empty string (`\w*`, `[a-z]*`, `a?`, `(foo)?`) are common user input; no test in the tree uses one.
// Ordinary integration test, public API only: copy into tests/ of a copy of the tree,
//   cargo test --offline --test demo_regex_tokenizer_empty_match
// Recorded 2026-09-26 on a copy of /repo:
//   empty_match_is_skipped_not_the_end_of_the_stream FAILED -- left: ["aa"], right: ["aa", "bb"]
//   leading_empty_match_loses_the_whole_text FAILED -- left: [], right: ["hello", "world"]
//   documented_example_still_holds ok.
use regex::Regex;
use tantivy::tokenizer::{RegexTokenizer, Tokenizer};

fn tokens(pattern: &str, text: &str) -> Vec<(String, usize, usize, usize)> {
    let mut tokenizer = RegexTokenizer::new(pattern).unwrap();
    let mut stream = tokenizer.token_stream(text);
    let mut out = Vec::new();
    while let Some(t) = tantivy::tokenizer::TokenStream::next(&mut stream) {
        out.push((t.text.clone(), t.position, t.offset_from, t.offset_to));
    }
    out
}

// what the rustdoc describes: each match emits a token, empty ones are not emitted
fn non_empty_matches(pattern: &str, text: &str) -> Vec<String> {
    Regex::new(pattern)
        .unwrap()
        .find_iter(text)
        .filter(|m| !m.as_str().is_empty())
        .map(|m| m.as_str().to_string())
        .collect()
}

#[test]
fn empty_match_is_skipped_not_the_end_of_the_stream() {
    // `\w*` matches "aa", then the empty string in front of the space, then "bb".
    assert_eq!(non_empty_matches(r"\w*", "aa bb"), vec!["aa".to_string(), "bb".to_string()]);
    let toks: Vec<String> = tokens(r"\w*", "aa bb").into_iter().map(|t| t.0).collect();
    assert_eq!(toks, vec!["aa".to_string(), "bb".to_string()]);
}

#[test]
fn leading_empty_match_loses_the_whole_text() {
    // the leftmost match of `[a-z]*` in " hello world" is empty (in front of the space)
    assert_eq!(non_empty_matches(r"[a-z]*", " hello world"), vec!["hello".to_string(), "world".to_string()]);
    let toks: Vec<String> = tokens(r"[a-z]*", " hello world").into_iter().map(|t| t.0).collect();
    assert_eq!(toks, vec!["hello".to_string(), "world".to_string()]);
}

#[test]
fn documented_example_still_holds() {
    let toks = tokens(r"'(?:\w*)'", "'aaa' bbb 'ccc' 'ddd'");
    assert_eq!(
        toks,
        vec![("'aaa'".to_string(), 0, 0, 5), ("'ccc'".to_string(), 1, 10, 15), ("'ddd'".to_string(), 2, 16, 21)]
    );
}
