// Candidate finding (C17 / C04; Verus unit docid_mapping_perm, Kani unit docid_mapping: witness [0, 4294967295]).
//
// src/indexer/doc_id_mapping.rs, `DocIdMapping::new_permutation` (public: `tantivy::indexer::DocIdMapping`) documents
// "Creates a DocIdMapping from a mapping of new doc ids to old doc ids, with permutation validation" and returns
// `crate::Result<Self>`: a table that is not a permutation of 0..n is answered with Err(InvalidArgument).  But
// `from_new_id_to_old_id_inner` computes
//
//     let old_max_doc = new_doc_id_to_old.iter().cloned().max().map(|n| n + 1).unwrap_or(0);
//     let mut old_doc_id_to_new = vec![0; old_max_doc as usize];
//
// BEFORE the first call of the validation closure.  For a table containing u32::MAX:
//   debug builds:   panic "attempt to add with overflow" (doc_id_mapping.rs, `n + 1`)
//   release builds: `n + 1` wraps to 0, the table is empty, the first entry that passes validation panics with
//                   "index out of bounds: the len is 0" -- [0, u32::MAX] panics, [u32::MAX, 0] returns Err (validation of entry 0 fails first)
// and for any large entry (e.g. [0, 4_000_000_000]) 4 * (max + 1) bytes (16 GB) are allocated and zeroed before the table is rejected.
// Expected: Err(InvalidArgument) without panic and without an allocation proportional to the invalid entry.
// The Verus unit states "no entry equals u32::MAX" as an explicit precondition of new_permutation / from_new_id_to_old_id.
//
// Ordinary integration test, public API only: copy into tests/ of a copy of the tree,
//   cargo test --offline --test demo_docid_mapping_new_permutation_max -- --test-threads 1 --nocapture
// Recorded runs: see the end of this file.
use tantivy::indexer::DocIdMapping;

#[test]
fn out_of_range_entry_is_rejected() {
    // control: an ordinary out-of-range entry is answered with Err
    assert!(DocIdMapping::new_permutation(vec![5, 0]).is_err());
    assert!(DocIdMapping::new_permutation(vec![1, 0]).is_ok());
}

#[test]
fn entry_u32_max_is_rejected_not_a_panic() {
    let r = std::panic::catch_unwind(|| DocIdMapping::new_permutation(vec![0, u32::MAX]).is_err());
    match r {
        Ok(is_err) => assert!(is_err, "[0, u32::MAX] accepted as a permutation"),
        Err(_) => panic!("new_permutation(vec![0, u32::MAX]) PANICKED instead of returning Err(InvalidArgument)"),
    }
}

// Recorded runs (2026-09-26, scratch copy of /repo, this sandbox):
//   debug:   test out_of_range_entry_is_rejected ... ok
//            test entry_u32_max_is_rejected_not_a_panic ... FAILED
//            panicked at src/indexer/doc_id_mapping.rs:110:22: attempt to add with overflow
//   release: test out_of_range_entry_is_rejected ... ok
//            test entry_u32_max_is_rejected_not_a_panic ... FAILED
//            panicked at src/indexer/doc_id_mapping.rs:115:30: index out of bounds: the len is 0 but the index is 0
