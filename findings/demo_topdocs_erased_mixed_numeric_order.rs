// Candidate finding (C06 "entries O..O+K of the complete result list ordered by the sort key, ties broken by ascending document address";
// "the number of segments never causes a document to be returned in place of one with a strictly better key"; Kani unit owned_value_order,
// harnesses ovcmp_int_f64_exact_full / ovcmp_trans_full).
//
// `TopDocs::order_by((SortByErasedType::for_field(path), order))` merges the per-segment top lists by comparing OwnedValue keys with
// `compare_owned_value` (src/collector/sort_key/order.rs).  One JSON path is an I64 column in a segment whose documents hold integers and an F64
// column in a segment whose documents hold floats, so the merge compares I64 with F64 keys.  That comparison is `(i as f64).to_u64().cmp(f.to_u64())`:
// the integer is ROUNDED to a double first, whereas I64 vs I64 is exact.  Above 2^53:
//      I64(9007199254740992) == F64(9007199254740992.0) == I64(9007199254740993)   but   I64(9007199254740992) < I64(9007199254740993)
// `<=` is not transitive, the relation is not a preorder.  With ties broken by document address the "comes before" relation of the three documents
//      Q = {"v": 9007199254740992}   (segment 0)      F = {"v": 9007199254740992.0}   (segment 1)      P = {"v": 9007199254740993}   (segment 2)
// for a descending sort is CYCLIC (Q before F by address, F before P by address, P before Q by key): there is no "complete result list", and
// whatever the sort / top-n selection happens to do is returned.  For other segment orders the list is consistent but F (= 2^53) is returned
// before / in place of P (= 2^53 + 1), the strictly greater number.
//
// Ordinary integration test, public API only: copy into tests/ of a copy of the tree,
//   cargo test --offline --test demo_topdocs_erased_mixed_numeric_order -- --nocapture --test-threads=1
// Recorded 2026-09-26 on the unchanged /repo (segment ordinals are assigned by the searcher, not in commit order: the tests rebuild the
// index until all 6 assignments have been seen):
//   control_mixed_columns_below_2pow53 ... ok     (1000 / 1000.0 / 1001: all 6 segment orders x {Desc, Asc})
//   control_integers_only_above_2pow53 ... ok
//   control_column_types_per_segment ... ok       (keys I64(9007199254740992), F64(9007199254740992.0), I64(9007199254740993))
//   mixed_columns_above_2pow53 ... FAILED         11 violated claims in 6 of the 12 (segment order, direction) cases, e.g.
//     Desc [I64(2^53)@seg0, F64(2^53.0)@seg1, I64(2^53+1)@seg2]   (the cyclic case)
//        limit 3 returns [I64(9007199254740992)@seg0, F64(9007199254740992.0)@seg1, I64(9007199254740993)@seg2]
//                -- a DESCENDING list in which I64 2^53+1 comes after I64 2^53 (two exactly comparable keys of one type)
//        limit 1 with offsets 0,1,2 returns [I64(9007199254740993)@seg2, F64(9007199254740992.0)@seg1, I64(9007199254740993)@seg2]
//                -- one document twice, the document of segment 0 never
//     Desc [F64(2^53.0)@seg0, I64(2^53)@seg1, I64(2^53+1)@seg2]
//        limit 1 returns F64(9007199254740992.0)@seg0 in place of I64(9007199254740993)@seg2 (the strictly greater number)
//     Asc [I64(2^53+1)@seg0, F64(2^53.0)@seg1, I64(2^53)@seg2]   (the cyclic case of the ascending sort)
//        limit 1 with offsets 0,1,2 returns [I64(2^53)@seg2, F64(2^53.0)@seg1, I64(2^53)@seg2]
//   cyclic_order_paging_loses_a_document ... FAILED
use tantivy::collector::sort_key::SortByErasedType;
use tantivy::collector::TopDocs;
use tantivy::query::AllQuery;
use tantivy::schema::{OwnedValue, Schema, FAST, STRING};
use tantivy::{doc, DocAddress, Index, IndexWriter, Order};

const TWO53: i64 = 9007199254740992;

/// one segment per entry of `values`, in that order
fn index_of(values: &[serde_json::Value]) -> Index {
    let mut sb = Schema::builder();
    let attr = sb.add_json_field("attr", FAST);
    let title = sb.add_text_field("title", STRING);
    let index = Index::create_in_ram(sb.build());
    let mut w: IndexWriter = index.writer_with_num_threads(1, 20_000_000).unwrap();
    w.set_merge_policy(Box::new(tantivy::merge_policy::NoMergePolicy));
    for v in values {
        w.add_document(doc!(title => "x", attr => serde_json::json!({ "v": v.clone() }))).unwrap();
        w.commit().unwrap();
    }
    index
}

/// the mathematical value of a key, exactly (all keys of this demo are integers or integral doubles below 2^63)
fn exact(v: &OwnedValue) -> i128 {
    match v {
        OwnedValue::I64(i) => *i as i128,
        OwnedValue::U64(u) => *u as i128,
        OwnedValue::F64(f) => {
            assert!(f.fract() == 0.0 && f.abs() < 9.0e18);
            *f as i128
        }
        other => panic!("unexpected key {other:?}"),
    }
}

fn search(index: &Index, limit: usize, offset: usize, order: Order) -> Vec<(OwnedValue, DocAddress)> {
    let searcher = index.reader().unwrap().searcher();
    searcher
        .search(
            &AllQuery,
            &TopDocs::with_limit(limit).and_offset(offset).order_by((SortByErasedType::for_field("attr.v"), order)),
        )
        .unwrap()
}

/// the list the property asks for: ordered by the key (as a number), ties by ascending address
fn expected(all: &[(OwnedValue, DocAddress)], order: Order) -> Vec<(OwnedValue, DocAddress)> {
    let mut v = all.to_vec();
    v.sort_by(|a, b| {
        let by_key = exact(&a.0).cmp(&exact(&b.0));
        let by_key = if order == Order::Desc { by_key.reverse() } else { by_key };
        by_key.then(a.1.cmp(&b.1))
    });
    v
}

/// returns the list of violated claims for one index
fn check(index: &Index, n: usize, order: Order) -> Vec<String> {
    let full = search(index, n, 0, order);
    assert_eq!(full.len(), n);
    let want = expected(&full, order);
    let mut bad = Vec::new();
    if full != want {
        bad.push(format!("limit {n}: got  {}\n                    want {}", show(&full), show(&want)));
    }
    // the top-1 document is the one with the best key
    let top1 = search(index, 1, 0, order);
    if top1[0] != want[0] {
        bad.push(format!("limit 1: got {}, the best key is {}", show(&top1), show(&want[..1])));
    }
    // paging with limit 1 enumerates every match exactly once
    let mut paged: Vec<(OwnedValue, DocAddress)> = Vec::new();
    for off in 0..n {
        paged.extend(search(index, 1, off, order));
    }
    let mut addrs: Vec<DocAddress> = paged.iter().map(|e| e.1).collect();
    addrs.sort();
    addrs.dedup();
    if addrs.len() != n {
        bad.push(format!("paging with limit 1, offsets 0..{n}: {} (only {} distinct documents)", show(&paged), addrs.len()));
    } else if paged != full {
        bad.push(format!("paging with limit 1 gives {} but limit {n} gives {}", show(&paged), show(&full)));
    }
    bad
}

fn show(l: &[(OwnedValue, DocAddress)]) -> String {
    let items: Vec<String> = l.iter().map(|(k, a)| format!("{k:?}@seg{}", a.segment_ord)).collect();
    format!("[{}]", items.join(", "))
}

/// Segment ordinals are assigned by the searcher (not in commit order): indexes are rebuilt until each of the 6 assignments of the three
/// one-document segments to ordinals 0,1,2 has been seen once; every assignment is checked for both directions.
/// Returns (assignment as keys by ordinal, order, violated claims).
fn run(vals: [serde_json::Value; 3]) -> Vec<(String, Order, Vec<String>)> {
    let mut seen: Vec<String> = Vec::new();
    let mut out = Vec::new();
    for _attempt in 0..500 {
        let index = index_of(&vals);
        let mut by_ord = search(&index, 3, 0, Order::Desc);
        by_ord.sort_by_key(|e| e.1);
        let assignment = show(&by_ord);
        if seen.contains(&assignment) {
            continue;
        }
        seen.push(assignment.clone());
        for order in [Order::Desc, Order::Asc] {
            let bad = check(&index, 3, order);
            println!("{order:?} {assignment}: {}", if bad.is_empty() { "ok" } else { "VIOLATED" });
            for b in &bad {
                println!("      {b}");
            }
            out.push((assignment.clone(), order, bad));
        }
        if seen.len() == 6 {
            break;
        }
    }
    assert_eq!(seen.len(), 6, "not every segment order was produced");
    out
}

fn violations(r: &[(String, Order, Vec<String>)]) -> usize {
    r.iter().map(|e| e.2.len()).sum()
}

// control: the same shape below 2^53 (I64 and F64 columns for one path, a tie across types): every segment order, both directions are fine
#[test]
fn control_mixed_columns_below_2pow53() {
    let r = run([serde_json::json!(1000i64), serde_json::json!(1000.0f64), serde_json::json!(1001i64)]);
    assert_eq!(violations(&r), 0);
}

// control: integers only, above 2^53, are compared exactly
#[test]
fn control_integers_only_above_2pow53() {
    let r = run([serde_json::json!(TWO53), serde_json::json!(TWO53 + 2), serde_json::json!(TWO53 + 1)]);
    assert_eq!(violations(&r), 0);
}

// the column types differ per segment (the erased computer yields I64 / F64 keys)
#[test]
fn control_column_types_per_segment() {
    let index = index_of(&[serde_json::json!(TWO53), serde_json::json!(TWO53 as f64), serde_json::json!(TWO53 + 1)]);
    let mut keys: Vec<String> = search(&index, 3, 0, Order::Desc).iter().map(|e| format!("{:?}", e.0)).collect();
    keys.sort();
    assert_eq!(keys, vec!["F64(9007199254740992.0)", "I64(9007199254740992)", "I64(9007199254740993)"]);
}

#[test]
fn mixed_columns_above_2pow53() {
    let r = run([serde_json::json!(TWO53), serde_json::json!(TWO53 as f64), serde_json::json!(TWO53 + 1)]);
    let f = violations(&r);
    assert_eq!(f, 0, "{f} violated claims");
}

// the cyclic case alone: descending, segment 0 = 2^53 (I64), segment 1 = 2^53.0 (F64), segment 2 = 2^53 + 1 (I64)
#[test]
fn cyclic_order_paging_loses_a_document() {
    let r = run([serde_json::json!(TWO53), serde_json::json!(TWO53 as f64), serde_json::json!(TWO53 + 1)]);
    let cyc = r
        .iter()
        .find(|e| e.1 == Order::Desc && e.0 == "[I64(9007199254740992)@seg0, F64(9007199254740992.0)@seg1, I64(9007199254740993)@seg2]")
        .expect("assignment present");
    assert!(cyc.2.is_empty(), "{:#?}", cyc.2);
}
