// Native demonstration, second consequence of finding F-store-empty (C09 / C04), found by unit store_writer_history (worker w9c):
// the history contract of StoreWriter::stack ("all' = all ++ reader_docs(reader)") needs the hypothesis that no pending raw document is empty.
//
// send_current_block_to_compressor() returns early on `current_block.is_empty()` WITHOUT looking at doc_pos / num_docs_in_current_block.
// Pending documents that are all empty (StoreWriter::store_bytes(&[]), public API) are therefore not flushed by stack() either: the stacked
// store's blocks are registered first and the pending empty documents leave later, in the next block, i.e. AFTER the stacked documents:
// the doc ids of all of them shift (demo_store_empty.rs shows the other consequence: close() drops them).
// The typed path StoreWriter::store always writes >= 1 byte per document, and merges (write_storable_fields) feed store_bytes with bytes read
// from an existing store, so this needs the raw-bytes API with an empty slice.
//
// How to run (scratch copy, never /repo): paste the test below right after the line `pub(crate) mod tests {` of src/store/mod.rs in a copy of
// the tree, then
//     CARGO_TARGET_DIR=<copy of /repo/target> cargo test --offline --lib store::tests::verif_ -- --nocapture --test-threads=1
//
// Recorded output (2026-09-26, unchanged tree):
//   VERIF stack after empty docs: checkpoints = [(doc=0..2, bytes=0..16), (doc=2..5, bytes=16..33)]
//   VERIF stack after empty docs: expected ["", "", "a0", "a1", "x"], iter_raw = ["a0", "a1", "", "", "x"]
//   VERIF stack after empty docs: get_document_bytes(0..5) = ["a0", "a1", "", "", "x"]
// A possible fix: test `self.doc_pos.is_empty()` instead of `self.current_block.is_empty()` in send_current_block_to_compressor.

    // ---- verif demo (scratch copy only)
    #[test]
    fn verif_empty_docs_then_stack_are_reordered() {
        use crate::directory::RamDirectory;
        use crate::Directory;
        let directory = RamDirectory::create();
        // store A: two documents "a0", "a1"
        let path_a = std::path::Path::new("store_a");
        let mut wa = super::StoreWriter::new(directory.open_write(path_a).unwrap(), super::Compressor::None, 16_384, false).unwrap();
        wa.store_bytes(b"a0").unwrap();
        wa.store_bytes(b"a1").unwrap();
        wa.close().unwrap();
        let reader_a = super::StoreReader::open(directory.open_read(path_a).unwrap(), 10).unwrap();
        // store W: "", "", then stack(A), then "x"   -- expected documents, by doc id: ["", "", "a0", "a1", "x"]
        let path_w = std::path::Path::new("store_w");
        let mut w = super::StoreWriter::new(directory.open_write(path_w).unwrap(), super::Compressor::None, 16_384, false).unwrap();
        w.store_bytes(&[]).unwrap();
        w.store_bytes(&[]).unwrap();
        w.stack(reader_a).unwrap();
        w.store_bytes(b"x").unwrap();
        w.close().unwrap();
        let reader = super::StoreReader::open(directory.open_read(path_w).unwrap(), 10).unwrap();
        let cps: Vec<_> = reader.block_checkpoints().collect();
        println!("VERIF stack after empty docs: checkpoints = {:?}", cps);
        let got: Vec<String> = reader
            .iter_raw(None)
            .map(|r| r.map(|b| String::from_utf8_lossy(b.as_slice()).to_string()).unwrap_or_else(|e| format!("ERR {e}")))
            .collect();
        println!("VERIF stack after empty docs: expected [\"\", \"\", \"a0\", \"a1\", \"x\"], iter_raw = {:?}", got);
        let by_id: Vec<String> = (0..5u32)
            .map(|d| reader.get_document_bytes(d).map(|b| String::from_utf8_lossy(b.as_slice()).to_string()).unwrap_or_else(|e| format!("ERR {e}")))
            .collect();
        println!("VERIF stack after empty docs: get_document_bytes(0..5) = {:?}", by_id);
    }
