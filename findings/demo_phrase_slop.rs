// Candidate finding (C03, unit phrase_slop_multi): "the answer is the same whether it is obtained by counting, by collecting
// document ids or by ranking, with scoring enabled or disabled".
//
// For a sloppy phrase of >= 3 terms PhraseScorer::compute_phrase_match merges the first n-1 position lists with
// intersection_count_with_carrying_slop, which records in `left_slops` how much of the slop budget every surviving position
// has already spent.  The scoring path (compute_phrase_count) honours that budget for the last term
// (intersection_count_with_carrying_slop again).  The non-scoring path (phrase_exists) calls
// intersection_exists_with_slop(&left_positions, &right_positions, slop): `left_slops` is ignored, the last term gets the
// FULL budget once more.  A document that needs  k <= slop  for the first terms and another  k' <= slop  for the last term,
// with k + k' > slop, is therefore reported by Count / DocSetCollector (scoring disabled) but not by TopDocs (scoring enabled).
//
// Ordinary integration test, public API only: copy into tests/ of a copy of the tree,
//   cargo test --offline --test demo_phrase_slop
// Recorded 2026-09-25 on the unchanged /repo:
//   slop_three_terms_same_answer_with_and_without_scoring  FAILED  count=1 docset=1 ranked=0
//   slop_controls_agree                                    ok
//   slop_answer_does_not_depend_on_other_documents         FAILED  alone=(1,1,1) with_others=(1,1,0)   (second, independent defect)
// With /tmp/phrase/fix.patch (phrase_exists uses the carrying-slop kernel for >= 3 terms) the first test passes
// (`cargo test --lib query::phrase`: 30 passed); the third is NOT addressed by that patch: alone=(1,1,1) with_others=(0,0,0).
// (Do not share one CARGO_TARGET_DIR between two copies of the tree: cargo reuses the library of the other copy.)
use tantivy::collector::{Count, DocSetCollector, TopDocs};
use tantivy::query::PhraseQuery;
use tantivy::schema::{Schema, TEXT};
use tantivy::{doc, Index, IndexWriter, Term};

fn search(docs: &[&str], phrase: &[&str], slop: u32) -> (usize, usize, usize) {
    let mut schema_builder = Schema::builder();
    let text = schema_builder.add_text_field("text", TEXT);
    let index = Index::create_in_ram(schema_builder.build());
    let mut writer: IndexWriter = index.writer_with_num_threads(1, 20_000_000).unwrap();
    for d in docs {
        writer.add_document(doc!(text => *d)).unwrap();
    }
    writer.commit().unwrap();
    let searcher = index.reader().unwrap().searcher();
    let terms: Vec<Term> = phrase.iter().map(|t| Term::from_field_text(text, t)).collect();
    let mut query = PhraseQuery::new(terms);
    query.set_slop(slop);
    let count = searcher.search(&query, &Count).unwrap();
    let docset = searcher.search(&query, &DocSetCollector).unwrap().len();
    let ranked = searcher
        .search(&query, &TopDocs::with_limit(10).order_by_score())
        .unwrap()
        .len();
    (count, docset, ranked)
}

// "a x b x c" needs one move between a and b and one more between b and c: total 2 > slop 1.
#[test]
fn slop_three_terms_same_answer_with_and_without_scoring() {
    let (count, docset, ranked) = search(&["a x b x c"], &["a", "b", "c"], 1);
    println!("count={count} docset={docset} ranked={ranked}");
    assert_eq!(count, docset, "Count vs DocSetCollector");
    assert_eq!(count, ranked, "Count (scoring disabled) vs TopDocs (scoring enabled)");
}

// control: with two terms, or with a budget that covers both gaps, the three collectors agree
#[test]
fn slop_controls_agree() {
    assert_eq!(search(&["a x b x c"], &["a", "b", "c"], 2), (1, 1, 1));
    assert_eq!(search(&["a x b x c"], &["a", "b", "c"], 0), (0, 0, 0));
    assert_eq!(search(&["a x b"], &["a", "b"], 1), (1, 1, 1));
    assert_eq!(search(&["a b x c"], &["a", "b", "c"], 1), (1, 1, 1));
}

// Second defect (same property, found while modelling compute_phrase_match): whether ONE document matches depends on the
// OTHER documents of the segment.  Intersection::new sorts the term cursors by cost (= document frequency) and
// compute_phrase_match merges the position lists in THAT order (docset_mut_specialized(i)), not in phrase order; the
// carrying-slop budget is spent pairwise along that order.  "a x b x c" needs 1 + 1 in the order a,b,c but 2 + 1 in the order
// c,a,b (c is the rarest term once the three other documents exist).  Merging segments changes the frequencies, hence the answer.
#[test]
fn slop_answer_does_not_depend_on_other_documents() {
    let alone = search(&["a x b x c"], &["a", "b", "c"], 2);
    let with_others = search(&["a x b x c", "b", "b", "a"], &["a", "b", "c"], 2);
    println!("alone={alone:?} with_others={with_others:?}");
    assert_eq!(alone, with_others);
}
