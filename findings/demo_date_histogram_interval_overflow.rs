// STATUS: REPAIRED in /repo by the commit "fix: date histogram interval parsing multiplied the number by its unit without overflow check"
// (`number.checked_mul(unit_in_ms).ok_or_else(|| DateHistogramParseError::OutOfBounds(..))?` in front of the existing `checked_mul(1_000_000)`).
// On the repaired tree this demo PASSES (run by main: 3/3 ok); the text and the recorded runs below describe the tree BEFORE the repair.
// Regression guards: Kani unit date_histogram_parse (total contract; harnesses dhp_mul_overflow_quick / dhp_wrap_class_quick / dhp_mul_wrap_witness),
// mutant specs/mutants/date_histogram_parse/fix_reverted_unchecked_mul.patch.
//
// Candidate finding F-datehist-interval-overflow (C14, Kani unit date_histogram_parse):
// "For any aggregation request (... histogram and date histogram ...), the result ... equals the result computed directly from
// those documents' field values", quantifier "every request tree ... with generated parameters (interval, offset, ...)".
//
// src/aggregation/bucket/histogram/date_histogram.rs `parse_into_milliseconds` (used for `fixed_interval` and `offset` of a
// date_histogram request):
//
//     let val = number * unit_in_ms;                       // <-- plain i64 multiplication
//     // The field type is in nanoseconds precision, so validate the value to fit the range
//     val.checked_mul(1_000_000).ok_or_else(|| DateHistogramParseError::OutOfBounds(input.to_string()))?;
//
// The range check (`OutOfBounds`, "passed value is out of bounds") is applied AFTER an unchecked multiplication.  For
// number > i64::MAX / unit the product overflows:
//   debug builds:   panic "attempt to multiply with overflow" inside AggregationCollector / for_segment (request-controlled input)
//   release builds: the product WRAPS; 2^54 * 86_400_000 = 84375 * 2^64 == 0 (mod 2^64), hence
//                     "18014398509481985d"  (2^54 + 1 days)  is accepted and MEANS 86_400_000 ms = "1d"
//                     "18014398509481984d"  (2^54 days)      means interval 0 (rejected later as a non-positive interval)
//                   i.e. the request is answered with the buckets of a different interval instead of Err(OutOfBounds).
// Expected (DateHistogramParseError documentation): Err(OutOfBounds) for every interval whose nanosecond value does not fit i64.
//
// Ordinary integration test, public API only: copy into tests/ of a copy of the tree,
//   cargo test --offline --test demo_date_histogram_interval_overflow -- --test-threads 1 --nocapture
//   cargo test --release --offline --test demo_date_histogram_interval_overflow -- --test-threads 1 --nocapture
// Recorded runs: see the end of this file.
use serde_json::Value;
use tantivy::aggregation::agg_req::Aggregations;
use tantivy::aggregation::AggregationCollector;
use tantivy::query::AllQuery;
use tantivy::schema::{Schema, FAST};
use tantivy::{DateTime, Index, IndexWriter, TantivyDocument};

const DAY_S: i64 = 86_400;

// three documents: day 0 (x2) and day 2
fn index() -> tantivy::Result<Index> {
    let mut schema_builder = Schema::builder();
    let date = schema_builder.add_date_field("date", FAST);
    let index = Index::create_in_ram(schema_builder.build());
    let mut writer: IndexWriter = index.writer_with_num_threads(1, 20_000_000)?;
    for secs in [10, 20, 2 * DAY_S + 5] {
        let mut doc = TantivyDocument::default();
        doc.add_date(date, DateTime::from_timestamp_secs(secs));
        writer.add_document(doc)?;
    }
    writer.commit()?;
    Ok(index)
}

fn run(index: &Index, req: &str) -> tantivy::Result<Value> {
    let agg_req: Aggregations = serde_json::from_str(req).unwrap();
    let collector = AggregationCollector::from_aggs(agg_req, Default::default());
    let searcher = index.reader()?.searcher();
    let res = searcher.search(&AllQuery, &collector)?;
    Ok(serde_json::to_value(res).unwrap())
}

fn req(interval: &str) -> String {
    format!(r#"{{"h": {{"date_histogram": {{"field": "date", "fixed_interval": "{interval}"}}}}}}"#)
}

// control: an interval that is too large for the nanosecond range but does not overflow the first multiplication is rejected
#[test]
fn a_control_out_of_bounds_is_an_error() {
    let index = index().unwrap();
    // 106_752 days = 9.2234e18 ns > i64::MAX
    let r = run(&index, &req("106752d"));
    println!("A: {:?}", r.as_ref().map(|v| v.to_string()).map_err(|e| e.to_string()));
    assert!(r.is_err());
    // control 2: "1d" gives the buckets day0: 2, day1: 0, day2: 1
    let v = run(&index, &req("1d")).unwrap();
    println!("A: 1d -> {v}");
}

// 2^54 + 1 days: must be an error (OutOfBounds); a panic or an Ok result fails the test
#[test]
fn b_interval_2pow54_plus_1_days_is_an_error() {
    let index = index().unwrap();
    let r = run(&index, &req("18014398509481985d"));
    match &r {
        Ok(v) => println!("B: Ok({v})"),
        Err(e) => println!("B: Err({e})"),
    }
    assert!(r.is_err(), "fixed_interval of 2^54+1 days was accepted; it is answered like \"1d\": {}", r.unwrap());
}

// the same through `offset`
#[test]
fn c_offset_2pow54_plus_1_days_is_an_error() {
    let index = index().unwrap();
    let r = run(
        &index,
        r#"{"h": {"date_histogram": {"field": "date", "fixed_interval": "1d", "offset": "-18014398509481985d"}}}"#,
    );
    match &r {
        Ok(v) => println!("C: Ok({v})"),
        Err(e) => println!("C: Err({e})"),
    }
    assert!(r.is_err(), "offset of -(2^54+1) days was accepted: {}", r.unwrap());
}

// Recorded runs (2026-09-26, this sandbox, unmodified /repo tree):
//   debug profile (`cargo test --offline --test demo_date_histogram_interval_overflow`):
//     test a_control_out_of_bounds_is_an_error ... ok
//       A: Err("Date histogram parse error: OutOfBounds(\"106752d\")")
//       A: 1d -> {"h":{"buckets":[{"doc_count":2,"key":0.0,..},{"doc_count":0,"key":86400000.0,..},{"doc_count":1,"key":172800000.0,..}]}}
//     test b_interval_2pow54_plus_1_days_is_an_error ... FAILED
//       thread panicked at src/aggregation/bucket/histogram/date_histogram.rs:238:15: attempt to multiply with overflow
//     test c_offset_2pow54_plus_1_days_is_an_error ... FAILED
//       thread panicked at src/aggregation/bucket/histogram/date_histogram.rs:238:15: attempt to multiply with overflow
//   release profile (`cargo test --release --offline --test demo_date_histogram_interval_overflow`):
//     test a_control_out_of_bounds_is_an_error ... ok
//     test b_interval_2pow54_plus_1_days_is_an_error ... FAILED
//       B: Ok({"h":{"buckets":[{"doc_count":2,"key":0.0,"key_as_string":"1970-01-01T00:00:00Z"},{"doc_count":0,"key":86400000.0,..},{"doc_count":1,"key":172800000.0,..}]}})
//       fixed_interval of 2^54+1 days was accepted; it is answered like "1d"
//     test c_offset_2pow54_plus_1_days_is_an_error ... FAILED
//       C: Ok({...same buckets...})   offset of -(2^54+1) days was accepted (wrapped to -1d)
