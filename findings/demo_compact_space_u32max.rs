//! Probes (units `compact_space_map` / `compact_space_reader`, C08): the u128 "compact space" codec used by IP-address columns.
//!
//! (a) A column whose compact space has exactly 2^32 - 1 covered values (last compact code == u32::MAX) passes
//!     `get_compact_space`'s `assert!(amplitude_bits <= 32)`, but `CompactSpaceBuilder::finish` computes
//!     `compact_start += covered_range_len` = 1 + (2^32 - 1) in u32 (and `RangeMapping::compact_end` computes
//!     `compact_start + range_length() - 1` left to right): `attempt to add with overflow` in builds with overflow
//!     checks; without them the sum wraps and the result happens to be correct.
//!     Input: 9 addresses evenly spread over [0, 2^32 - 2]: none of the 8 blanks is worth removing (cost 36 bits per
//!     blank >= saved bits for 9 values), so the whole interval stays covered.
//! (b) `CompactSpaceU64Accessor::get_row_ids_for_value_range` (the u64 view returned by `open_u128_as_compact_u64`)
//!     converts the caller's compact bounds with `compact_to_u128`, whose `unwrap_or_else(|e| e - 1)` assumes
//!     "the first range starts at compact space 0" -- it starts at 1 (0 is the null code).  A lower bound 0
//!     (e.g. the natural "all values" range `0..=u64::MAX`) underflows `e - 1`.
use std::net::Ipv6Addr;

use tantivy_columnar::column_values::{
    open_u128_as_compact_u64, open_u128_mapped, serialize_column_values_u128,
};

fn spread_values(offset: u128) -> Vec<u128> {
    let mut vals: Vec<u128> = (0..8u128).map(|i| offset + i * (1u128 << 29)).collect();
    vals.push(offset + (1u128 << 32) - 2);
    vals
}

#[test]
fn a_u128_column_with_exactly_u32max_compact_codes_roundtrips() {
    let vals = spread_values(0);
    let mut out = Vec::new();
    // observed with overflow checks: panic `attempt to add with overflow` (build_compact_space.rs, finish)
    serialize_column_values_u128(&&vals[..], &mut out).unwrap();
    let col = open_u128_mapped::<u128>(common::OwnedBytes::new(out)).unwrap();
    for (i, v) in vals.iter().enumerate() {
        assert_eq!(col.get_val(i as u32), *v);
    }
}

#[test]
fn a_ipv4_mapped_addresses_spread_over_the_v4_space_roundtrip() {
    // ::ffff:0.0.0.0 .. ::ffff:255.255.255.254
    let vals: Vec<Ipv6Addr> = spread_values(0xffff_0000_0000u128).into_iter().map(Ipv6Addr::from).collect();
    let mut out = Vec::new();
    serialize_column_values_u128(&&vals[..], &mut out).unwrap();
    let col = open_u128_mapped::<Ipv6Addr>(common::OwnedBytes::new(out)).unwrap();
    for (i, v) in vals.iter().enumerate() {
        assert_eq!(col.get_val(i as u32), *v);
    }
}

#[test]
fn b_compact_u64_view_range_starting_at_zero_returns_all_rows() {
    let vals: Vec<u128> = vec![10, 11, 5000, 70_000];
    let mut out = Vec::new();
    serialize_column_values_u128(&&vals[..], &mut out).unwrap();
    let col = open_u128_as_compact_u64(common::OwnedBytes::new(out)).unwrap();
    let mut rows = Vec::new();
    // in range: min..=max works
    col.get_row_ids_for_value_range(col.min_value()..=col.max_value(), 0..4, &mut rows);
    assert_eq!(rows, vec![0, 1, 2, 3]);
    rows.clear();
    // expected: every row (all compact codes are >= 1 > 0).  Observed: panic `attempt to subtract with overflow`
    // (compact_space/mod.rs, compact_to_u128) -- in a build without overflow checks: index out of bounds.
    col.get_row_ids_for_value_range(0..=u64::MAX, 0..4, &mut rows);
    assert_eq!(rows, vec![0, 1, 2, 3]);
}
