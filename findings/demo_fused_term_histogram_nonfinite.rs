// STATUS: REPAIRED in /repo by commit "fix: fused terms x histogram path counted non-finite f64 values" (all_docs_in_bounds now also requires
// `hist_req_data.field_type != ColumnType::F64`, so for f64 columns `bounds.contains(val)` always runs and term_counts is allocated); main ran this
// demo on the repaired tree: 3/3 tests pass.  The "Recorded" lines below are from the tree BEFORE the fix.  Unit term_histogram_fused now proves
// collect WITHOUT the `finite_ok` restriction (counted == the general path's bounds.contains for all values incl. NaN / +-inf); mutants
// revert_type_test_dropped / type_test_inverted restore the defect and are caught; Kani unit fused_nonf64_in_bounds checks that non-F64 codes decode into the unbounded bounds.
// Candidate finding (C14, unit term_histogram_fused): the fused terms x histogram collector
// (src/aggregation/bucket/term_agg/term_histogram.rs) and the general path disagree on NON-FINITE f64 values.
//
// Without (binding) hard_bounds the collect-time bounds are [f64::MIN, f64::MAX].  The general histogram collector
// (SegmentHistogramCollector::collect) tests `bounds.contains(val)` for every value, which is FALSE for +inf, -inf and NaN: such values are
// in no histogram bucket.  The fused collector short-circuits that test (`if all_docs_in_bounds || bounds.contains(val)`,
// all_docs_in_bounds == (bounds == [MIN, MAX])) and computes a grid cell for them:
//   NaN : `get_bucket_pos_f64(NaN, ..) as i64` == 0  => silently COUNTED in the bucket at position 0 (if 0 lies in the dense range),
//   +inf: position i64::MAX                          => cell outside the grid: debug_assert / index-out-of-bounds panic.
// `maybe_build_collector` does not rule the situation out: compute_dense_range clamps the column max (inf / NaN) to bounds.max = f64::MAX,
// so with a large interval the grid is small and the fused path is chosen.
// The same request with one more (metric) child next to the histogram takes the general path: the histogram buckets differ / no panic.
//
// Ordinary integration test, public API only: copy into tests/ of a copy of the tree,
//   cargo test --offline --test demo_fused_term_histogram_nonfinite -- --nocapture
// Recorded 2026-09-26 on a copy of /repo (debug build, single segment):
//   finite_values_fused_equals_general ... ok
//   nan_value_fused_equals_general ... FAILED   fused  : a: doc_count 2, histo [{key 0.0, doc_count 2}]   (NaN document counted in bucket 0)
//                                                general: a: doc_count 2, histo [{key 0.0, doc_count 1}]
//   inf_value_fused_does_not_panic ... FAILED   general: a: histo [{key 0.0, doc_count 1}] (inf in no bucket); fused: panicked at
//                                                src/aggregation/bucket/term_agg/term_histogram.rs:167 "histogram bucket outside dense range"
//                                                (debug_assert; a release build indexes `counts[term_id * n + i64::MAX as usize]`: out-of-bounds panic)
// (Before the fix the Verus unit term_histogram_fused stated the restriction as the explicit precondition `finite_ok` of collect.)
use serde_json::{json, Value};
use tantivy::aggregation::agg_req::Aggregations;
use tantivy::aggregation::AggregationCollector;
use tantivy::query::AllQuery;
use tantivy::schema::{Schema, FAST, STRING};
use tantivy::{doc, Index, IndexWriter};

fn run(values: &[(&str, f64)], with_sibling_metric: bool) -> Value {
    let mut sb = Schema::builder();
    let t = sb.add_text_field("t", STRING | FAST);
    let v = sb.add_f64_field("v", FAST);
    let index = Index::create_in_ram(sb.build());
    let mut w: IndexWriter = index.writer_with_num_threads(1, 20_000_000).unwrap();
    for (term, val) in values {
        w.add_document(doc!(t => *term, v => *val)).unwrap();
    }
    w.commit().unwrap();
    let searcher = index.reader().unwrap().searcher();
    assert_eq!(searcher.segment_readers().len(), 1);
    let mut sub = json!({ "histo": { "histogram": { "field": "v", "interval": 1e305, "min_doc_count": 1 } } });
    if with_sibling_metric {
        // a second child: `node.children.len() == 1` fails => general (buffered) path
        sub["n"] = json!({ "value_count": { "field": "v" } });
    }
    let aggs: Aggregations = serde_json::from_value(json!({
        "by_term": { "terms": { "field": "t", "order": { "_key": "asc" } }, "aggs": sub }
    }))
    .unwrap();
    let collector = AggregationCollector::from_aggs(aggs, Default::default());
    let res = serde_json::to_value(searcher.search(&AllQuery, &collector).unwrap()).unwrap();
    let per_term: Vec<Value> = res["by_term"]["buckets"]
        .as_array()
        .unwrap()
        .iter()
        .map(|b| json!({ "key": b["key"], "doc_count": b["doc_count"], "histo": b["histo"]["buckets"] }))
        .collect();
    json!(per_term)
}

#[test]
fn finite_values_fused_equals_general() {
    let docs = [("a", 0.0), ("b", 2e305), ("a", 3.5e305), ("a", 0.5)];
    let fused = run(&docs, false);
    let general = run(&docs, true);
    println!("finite  fused  : {fused}\nfinite  general: {general}");
    assert_eq!(fused, general);
}

#[test]
fn nan_value_fused_equals_general() {
    let docs = [("a", 0.0), ("b", 2e305), ("a", f64::NAN)];
    let fused = run(&docs, false);
    let general = run(&docs, true);
    println!("NaN  fused  : {fused}\nNaN  general: {general}");
    assert_eq!(fused, general, "the NaN document is counted in bucket 0 by the fused path only");
}

#[test]
fn inf_value_fused_does_not_panic() {
    let docs = [("a", 0.0), ("b", 2e305), ("a", f64::INFINITY)];
    let general = run(&docs, true);
    println!("inf  general: {general}");
    let fused = run(&docs, false);
    println!("inf  fused  : {fused}");
    assert_eq!(fused, general);
}
