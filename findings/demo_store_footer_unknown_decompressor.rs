// Candidate finding (unit store_close_open; C09 framing of the doc-store file, C20 context: damaged / newer segment files).
// `DocStoreFooter::deserialize` (src/store/footer.rs) turns the decompressor id byte of the 28-byte doc-store footer into a
// `Decompressor` with `Decompressor::from_id` (src/store/decompressors.rs), whose fall-through arm is
// `panic!("unknown compressor id {id:?}")`.  The function returns io::Result and reports an unknown VERSION number as
// `Err(InvalidData)`, but an unknown CODEC id (a flipped byte, or a store written with a codec this build was compiled
// without, e.g. zstd = 4 read by a build without the `zstd-compression` feature) takes the process down inside
// `StoreReader::open`, i.e. when the segment is opened.  Contract refuted: "unknown decompressor id => Err".
// Ordinary integration test, public API only: copy into tests/ of a copy of the tree,
//   cargo test --offline --test demo_store_footer_unknown_decompressor
// Recorded 2026-09-26 on a copy of /repo: 2 passed, 1 FAILED -- well_formed_empty_store_opens ok, unknown_version_is_an_error ok,
//   unknown_decompressor_id_is_an_error_not_a_panic: panicked at src/store/decompressors.rs:40:18 "unknown compressor id 7".
use std::panic::{catch_unwind, AssertUnwindSafe};

use tantivy::directory::FileSlice;
use tantivy::store::StoreReader;

// an EMPTY store: no block data, a skip index with zero layers (VInt 0 = one byte 0x80), then the footer:
// version (u32 LE), offset of the skip index (u64 LE), decompressor id, 15 reserved bytes
fn store_file(version: u32, decompressor_id: u8) -> Vec<u8> {
    let mut bytes = vec![0x80u8];
    bytes.extend_from_slice(&version.to_le_bytes());
    bytes.extend_from_slice(&0u64.to_le_bytes());
    bytes.push(decompressor_id);
    bytes.extend_from_slice(&[0u8; 15]);
    bytes
}

#[test]
fn well_formed_empty_store_opens() {
    let file = FileSlice::from(store_file(2, 0));
    assert!(StoreReader::open(file, 0).is_ok());
}

#[test]
fn unknown_version_is_an_error() {
    let file = FileSlice::from(store_file(9, 0));
    assert!(StoreReader::open(file, 0).is_err());
}

#[test]
fn unknown_decompressor_id_is_an_error_not_a_panic() {
    let file = FileSlice::from(store_file(2, 7));
    let res = catch_unwind(AssertUnwindSafe(|| StoreReader::open(file, 0).is_err()));
    assert!(res.is_ok(), "StoreReader::open panicked on a footer with decompressor id 7");
    assert!(res.unwrap(), "StoreReader::open accepted decompressor id 7");
}
