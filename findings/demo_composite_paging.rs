// Findings (C14 "composite ... paging via `after` enumerates every bucket exactly once; independent of segment partitioning and merge
// order"; candidate defects D1..D7 found by worker w16d while writing the contracts of units composite_after_key /
// composite_calendar_week for src/aggregation/bucket/composite/{accessors,collector,calendar_interval}.rs and
// IntermediateCompositeBucketResult::merge_fruits in src/aggregation/intermediate_agg_result.rs).
//
// D1  histogram / date_histogram SOURCE with `missing_order: "last"`: the FIRST page (request without `after`) contains no non-null
//     bucket at all.  CompositeSourceAccessors::build_for_source (accessors.rs, histogram and date_histogram arms) computes the
//     after key of a request WITHOUT `after` as `None => precompute_missing_after_key(true, ..)` -- `true` = "the after key is an
//     explicit null" -- so (Last, Asc) gives AfterLast and (Last, Desc) gives Next(0), and CompositeKeyVisitor::visit skips every
//     value (`after_key.gt(v)` / `after_key.lt(v)`).  The terms arm passes `false` and is right (d1_control_terms_missing_last).
//     Even without `missing_bucket` (d1_histogram_missing_last_without_missing_bucket) the answer is the empty page.
// D2  date_histogram source with `fixed_interval`: `(value_ns / fixed_interval_ns) * fixed_interval_ns` (collector.rs, visit) is a
//     TRUNCATING division: timestamps before 1970 are rounded UP to the next interval start, and the two intervals around the epoch
//     are merged into one bucket (1969-12-31T12:00 and 1970-01-01T12:00, interval 1d: one bucket `0` with doc_count 2; the plain
//     date_histogram aggregation gives two buckets).  calendar `week` uses div_euclid and is right (d2_control_...).
// D3  histogram source with a fractional interval: the bucket key is `idx as f64 * interval` (resolve_internal_value_repr) and the
//     after key is mapped back by `f64_to_i64(key / interval)` (build_for_source); (idx * iv) / iv != idx in f64 for e.g.
//     (3, 0.7), (-3, 0.1) [quotient below idx: ascending order] and (3, 0.1) [above idx: descending order]: the projected after key is
//     Next(idx) instead of Exact(idx), bucket idx is returned AGAIN as the first bucket of the next page, with the same after_key: a
//     client paging with size 1 never terminates, with a larger size it sees the bucket twice.  (Kani witness: unit
//     composite_after_key, harness histkey_after_roundtrip.)
// D4  composite below a terms aggregation with `min_doc_count: 0`: the terms segment collector fills terms without matching
//     documents with `IntermediateAggregationResults::empty_from_req`, whose composite entry is
//     IntermediateCompositeBucketResult::default() = { target_size: 0, orders: [] }.  merge_fruits keeps `self.target_size` /
//     `self.orders`: when the EMPTY side is `self`, `entries.len() > 2 * 0` triggers trim() to 0 entries and every composite bucket
//     of the other segment is dropped; when the real side is `self` the result is right.  Which side is `self` depends on the
//     segment order (collector.rs merge_fruits pops the LAST fruit): the same two documents give two different answers.
// D5  descending terms source over a JSON path with several column types: when the after key's type class has no column in a
//     segment, PrecomputedAfterKey::keep_all(Desc) = Next(u64::MAX) is used and `lt(v)` = `u64::MAX <= v` skips the raw value
//     u64::MAX: the bucket u64::MAX of a u64 column (i64::MAX of an i64 column) is never returned by any page.  (Kani witness:
//     unit composite_after_key, harness afterkey_keep_all_full.)
// D6  calendar_interval week, timestamps 1677-09-21 .. 1677-09-26 (the first days of the i64 nanosecond range, before the first
//     representable Monday): `monday_days_since_epoch * NS_IN_DAY` overflows: panic in debug builds, wrapped (far future) bucket in
//     release builds.  (Kani witness: unit composite_calendar_week, harness week_bucket_full_range.)
// D7  histogram / date_histogram source with `order: desc` and `missing_bucket: true` (missing_order default, i.e. null LAST for
//     desc): precompute_missing_after_key(true, Default, Desc) returns AfterLast, whose `lt(v)` is false for every value, so the page
//     requested with the after key `null` (the last bucket) starts again at the first bucket: pages cycle 5, 0, null, 5, 0, null, ...
//     The table row should be the one of (true, Last, Desc).  (Kani witness: unit composite_after_key, harness
//     afterkey_missing_table_full.)  The terms source cuts by after_key_accessor_idx and is right (d7_control_terms_...).
//
// Ordinary integration test, public API only: copy into tests/ of a copy of the tree,
//   cargo test --offline --test demo_composite_paging -- --nocapture --test-threads 1
// Recorded 2026-09-26 on /repo: 9 passed (d0 control: 3 segments x 2 sources x page sizes 1..7 == one page == direct count; all
// *_control_*), 13 FAILED: d1_histogram_missing_last_first_page (left [null]), d1_histogram_missing_last_desc (left [null]),
// d1_histogram_missing_last_without_missing_bucket (left []), d1_date_histogram_missing_last_first_page (left [null]),
// d2_fixed_interval_before_epoch (left [(0.0, 2)]), d3_paging_interval_0_7_asc / d3_paging_interval_0_1_desc /
// d3_paging_interval_0_1_asc_negative (10 identical pages, no end), d4_min_doc_count_0_segment_order (8 of 16 builds lost the
// buckets), d5_desc_u64_max_after_a_date_key / d5_desc_i64_max_after_a_date_key (bucket missing from the pages),
// d6_calendar_week_near_i64_min (panic: attempt to multiply with overflow, calendar_interval.rs:36),
// d7_histogram_desc_missing_bucket_paging_ends (pages cycle, no empty page).
use serde_json::{json, Value};
use tantivy::aggregation::agg_req::Aggregations;
use tantivy::aggregation::AggregationCollector;
use tantivy::query::{AllQuery, Query, TermQuery};
use tantivy::schema::{IndexRecordOption, Schema, FAST, STRING};
use tantivy::{doc, DateTime, Index, IndexWriter, Term};

fn search(index: &Index, query: &dyn Query, aggs: Value) -> Result<Value, String> {
    let aggs: Aggregations = serde_json::from_value(aggs).map_err(|e| e.to_string())?;
    let collector = AggregationCollector::from_aggs(aggs, Default::default());
    let res = index.reader().unwrap().searcher().search(query, &collector).map_err(|e| e.to_string())?;
    Ok(serde_json::to_value(res).unwrap())
}

fn composite(index: &Index, sources: &Value, size: usize, after: Option<&Value>) -> Value {
    let mut req = json!({ "c": { "composite": { "sources": sources, "size": size } } });
    if let Some(a) = after {
        req["c"]["composite"]["after"] = a.clone();
    }
    search(index, &AllQuery, req).unwrap()["c"].clone()
}

/// all pages of size `size`, following `after_key`, at most `max_pages` pages
fn all_pages(index: &Index, sources: &Value, size: usize, max_pages: usize) -> (Vec<Value>, bool) {
    let mut out = Vec::new();
    let mut after: Option<Value> = None;
    for _ in 0..max_pages {
        let page = composite(index, sources, size, after.as_ref());
        let buckets = page["buckets"].as_array().unwrap().clone();
        println!("  page(after={}) -> {}", after.as_ref().map(|a| a.to_string()).unwrap_or_default(), page);
        if buckets.is_empty() {
            return (out, true);
        }
        out.extend(buckets);
        after = Some(page["after_key"].clone());
    }
    (out, false)
}

fn keys(buckets: &[Value], name: &str) -> Vec<Value> {
    buckets.iter().map(|b| b["key"][name].clone()).collect()
}

// ------------------------------------------------------------------------------------------------
// D1: histogram / date_histogram source with `missing_order: last`: the FIRST page (no `after`)
fn value_index() -> Index {
    let mut sb = Schema::builder();
    let value = sb.add_f64_field("value", FAST);
    let id = sb.add_u64_field("id", FAST);
    let index = Index::create_in_ram(sb.build());
    let mut w: IndexWriter = index.writer_with_num_threads(1, 20_000_000).unwrap();
    w.add_document(doc!(value => 1.0f64, id => 0u64)).unwrap();
    w.add_document(doc!(value => 6.0f64, id => 1u64)).unwrap();
    w.add_document(doc!(id => 2u64)).unwrap();
    w.commit().unwrap();
    index
}

#[test]
fn d1_control_histogram_missing_first() {
    let index = value_index();
    let sources = json!([{ "h": { "histogram": { "field": "value", "interval": 5.0, "missing_bucket": true, "missing_order": "first" } } }]);
    let page = composite(&index, &sources, 10, None);
    println!("{page}");
    assert_eq!(keys(page["buckets"].as_array().unwrap(), "h"), vec![json!(null), json!(0.0), json!(5.0)]);
}

#[test]
fn d1_histogram_missing_last_first_page() {
    let index = value_index();
    let sources = json!([{ "h": { "histogram": { "field": "value", "interval": 5.0, "missing_bucket": true, "missing_order": "last" } } }]);
    let page = composite(&index, &sources, 10, None);
    println!("{page}");
    assert_eq!(keys(page["buckets"].as_array().unwrap(), "h"), vec![json!(0.0), json!(5.0), json!(null)]);
}

#[test]
fn d1_histogram_missing_last_without_missing_bucket() {
    // `missing_order` alone (no missing bucket requested) must not change anything
    let index = value_index();
    let sources = json!([{ "h": { "histogram": { "field": "value", "interval": 5.0, "missing_order": "last" } } }]);
    let page = composite(&index, &sources, 10, None);
    println!("{page}");
    assert_eq!(keys(page["buckets"].as_array().unwrap(), "h"), vec![json!(0.0), json!(5.0)]);
}

#[test]
fn d1_histogram_missing_last_desc() {
    let index = value_index();
    let sources = json!([{ "h": { "histogram": { "field": "value", "interval": 5.0, "order": "desc", "missing_bucket": true, "missing_order": "last" } } }]);
    let page = composite(&index, &sources, 10, None);
    println!("{page}");
    assert_eq!(keys(page["buckets"].as_array().unwrap(), "h"), vec![json!(5.0), json!(0.0), json!(null)]);
}

#[test]
fn d1_control_terms_missing_last() {
    let index = value_index();
    let sources = json!([{ "h": { "terms": { "field": "value", "missing_bucket": true, "missing_order": "last" } } }]);
    let page = composite(&index, &sources, 10, None);
    println!("{page}");
    assert_eq!(keys(page["buckets"].as_array().unwrap(), "h"), vec![json!(1), json!(6), json!(null)]);
}

fn date_index(dates: &[i64]) -> Index {
    let mut sb = Schema::builder();
    let dt = sb.add_date_field("dt", FAST);
    let id = sb.add_u64_field("id", FAST);
    let index = Index::create_in_ram(sb.build());
    let mut w: IndexWriter = index.writer_with_num_threads(1, 20_000_000).unwrap();
    for (i, secs) in dates.iter().enumerate() {
        w.add_document(doc!(dt => DateTime::from_timestamp_secs(*secs), id => i as u64)).unwrap();
    }
    w.add_document(doc!(id => 99u64)).unwrap();
    w.commit().unwrap();
    index
}

#[test]
fn d1_date_histogram_missing_last_first_page() {
    let day = 86_400i64;
    let index = date_index(&[10 * day + 5, 11 * day + 5]);
    let sources = json!([{ "d": { "date_histogram": { "field": "dt", "fixed_interval": "1d", "missing_bucket": true, "missing_order": "last" } } }]);
    let page = composite(&index, &sources, 10, None);
    println!("{page}");
    assert_eq!(
        keys(page["buckets"].as_array().unwrap(), "d"),
        vec![json!(10 * day * 1000), json!(11 * day * 1000), json!(null)]
    );
}

// ------------------------------------------------------------------------------------------------
// D2: date_histogram source with a fixed interval and timestamps before 1970
#[test]
fn d2_fixed_interval_before_epoch() {
    let day = 86_400i64;
    // 1969-12-31T12:00:00Z and 1970-01-01T12:00:00Z: two different days
    let index = date_index(&[-day / 2, day / 2]);
    let sources = json!([{ "d": { "date_histogram": { "field": "dt", "fixed_interval": "1d" } } }]);
    let page = composite(&index, &sources, 10, None);
    println!("composite      : {page}");
    let plain = search(&index, &AllQuery, json!({ "h": { "date_histogram": { "field": "dt", "fixed_interval": "1d" } } })).unwrap();
    println!("date_histogram : {}", plain["h"]);
    let plain_keys: Vec<f64> = plain["h"]["buckets"].as_array().unwrap().iter().map(|b| b["key"].as_f64().unwrap()).collect();
    assert_eq!(plain_keys, vec![(-day * 1000) as f64, 0.0]);
    let comp: Vec<(f64, u64)> = page["buckets"].as_array().unwrap().iter().map(|b| (b["key"]["d"].as_f64().unwrap(), b["doc_count"].as_u64().unwrap())).collect();
    assert_eq!(comp, vec![((-day * 1000) as f64, 1), (0.0, 1)]);
}

#[test]
fn d2_control_calendar_week_before_epoch() {
    let day = 86_400i64;
    // Wed 1969-12-24 and Thu 1970-01-01: two different weeks (Mon 1969-12-22, Mon 1969-12-29)
    let index = date_index(&[-8 * day, 0]);
    let sources = json!([{ "d": { "date_histogram": { "field": "dt", "calendar_interval": "week" } } }]);
    let page = composite(&index, &sources, 10, None);
    println!("{page}");
    let comp: Vec<f64> = page["buckets"].as_array().unwrap().iter().map(|b| b["key"]["d"].as_f64().unwrap()).collect();
    assert_eq!(comp, vec![(-10 * day * 1000) as f64, (-3 * day * 1000) as f64]);
}

// ------------------------------------------------------------------------------------------------
// D3: histogram source, fractional interval: the after key `idx * interval` divided by `interval` is not `idx`
fn f64_index(values: &[f64]) -> Index {
    let mut sb = Schema::builder();
    let value = sb.add_f64_field("value", FAST);
    let index = Index::create_in_ram(sb.build());
    let mut w: IndexWriter = index.writer_with_num_threads(1, 20_000_000).unwrap();
    for v in values {
        w.add_document(doc!(value => *v)).unwrap();
    }
    w.commit().unwrap();
    index
}

#[test]
fn d3_control_interval_one_half() {
    let index = f64_index(&[0.6, 1.7, 2.2]);
    let sources = json!([{ "h": { "histogram": { "field": "value", "interval": 0.5 } } }]);
    let one = composite(&index, &sources, 10, None);
    let (paged, finished) = all_pages(&index, &sources, 1, 10);
    assert!(finished);
    assert_eq!(&paged, one["buckets"].as_array().unwrap());
}

#[test]
fn d3_paging_interval_0_7_asc() {
    // buckets 0 (0.5), 3 (2.2: 2.2 / 0.7 = 3.14), 4 (3.0): keys 0, 2.0999999999999996, 2.8
    let index = f64_index(&[0.5, 2.2, 3.0]);
    let sources = json!([{ "h": { "histogram": { "field": "value", "interval": 0.7 } } }]);
    let one = composite(&index, &sources, 10, None);
    println!("one page: {one}");
    assert_eq!(one["buckets"].as_array().unwrap().len(), 3);
    let (paged, finished) = all_pages(&index, &sources, 1, 10);
    assert!(finished, "paging with size 1 did not reach an empty page within 10 pages: {:?}", keys(&paged, "h"));
    assert_eq!(&paged, one["buckets"].as_array().unwrap());
}

#[test]
fn d3_paging_interval_0_1_desc() {
    // buckets 3 (0.35) and 1 (0.15), descending
    let index = f64_index(&[0.35, 0.15]);
    let sources = json!([{ "h": { "histogram": { "field": "value", "interval": 0.1, "order": "desc" } } }]);
    let one = composite(&index, &sources, 10, None);
    println!("one page: {one}");
    assert_eq!(one["buckets"].as_array().unwrap().len(), 2);
    let (paged, finished) = all_pages(&index, &sources, 1, 10);
    assert!(finished, "paging with size 1 did not reach an empty page within 10 pages: {:?}", keys(&paged, "h"));
    assert_eq!(&paged, one["buckets"].as_array().unwrap());
}

#[test]
fn d3_paging_interval_0_1_asc_negative() {
    // buckets -3 (-0.25) and 1 (0.15), ascending
    let index = f64_index(&[-0.25, 0.15]);
    let sources = json!([{ "h": { "histogram": { "field": "value", "interval": 0.1 } } }]);
    let one = composite(&index, &sources, 10, None);
    println!("one page: {one}");
    let (paged, finished) = all_pages(&index, &sources, 1, 10);
    assert!(finished, "paging with size 1 did not reach an empty page within 10 pages: {:?}", keys(&paged, "h"));
    assert_eq!(&paged, one["buckets"].as_array().unwrap());
}

// ------------------------------------------------------------------------------------------------
// D4: composite below a terms aggregation with min_doc_count 0: the result depends on the segment order
fn cat_index(first_segment_matches: bool) -> Index {
    let mut sb = Schema::builder();
    let cat = sb.add_text_field("cat", STRING | FAST);
    let flag = sb.add_text_field("flag", STRING);
    let n = sb.add_u64_field("n", FAST);
    let index = Index::create_in_ram(sb.build());
    let mut w: IndexWriter = index.writer_with_num_threads(1, 20_000_000).unwrap();
    let matching = doc!(cat => "x", flag => "yes", n => 2u64);
    let other = doc!(cat => "x", flag => "no", n => 1u64);
    if first_segment_matches {
        w.add_document(matching).unwrap();
        w.commit().unwrap();
        w.add_document(other).unwrap();
        w.commit().unwrap();
    } else {
        w.add_document(other).unwrap();
        w.commit().unwrap();
        w.add_document(matching).unwrap();
        w.commit().unwrap();
    }
    assert_eq!(index.searchable_segment_ids().unwrap().len(), 2);
    index
}

fn terms_with_composite(index: &Index, min_doc_count: u64) -> Value {
    let flag = index.schema().get_field("flag").unwrap();
    let q = TermQuery::new(Term::from_field_text(flag, "yes"), IndexRecordOption::Basic);
    let req = json!({ "t": { "terms": { "field": "cat", "min_doc_count": min_doc_count },
        "aggs": { "c": { "composite": { "size": 10, "sources": [ { "n": { "terms": { "field": "n" } } } ] } } } } });
    let res = search(index, &q, req).unwrap();
    println!("{}", res["t"]);
    res["t"]["buckets"].clone()
}

#[test]
fn d4_control_min_doc_count_1() {
    let want = json!([{ "key": "x", "doc_count": 1, "c": { "after_key": { "n": "u64:2" }, "buckets": [ { "key": { "n": 2 }, "doc_count": 1 } ] } }]);
    assert_eq!(terms_with_composite(&cat_index(true), 1), want);
    assert_eq!(terms_with_composite(&cat_index(false), 1), want);
}

#[test]
fn d4_min_doc_count_0_segment_order() {
    // the order of the two segments in the searcher (= the merge order of their fruits) is not under the test's control
    // (segment ids are random): build the same two-segment index repeatedly; every build must give the same answer
    let want = json!([{ "key": "x", "doc_count": 1, "c": { "after_key": { "n": "u64:2" }, "buckets": [ { "key": { "n": 2 }, "doc_count": 1 } ] } }]);
    let mut bad = 0;
    for attempt in 0..16 {
        let got = terms_with_composite(&cat_index(attempt % 2 == 0), 0);
        if got != want {
            bad += 1;
        }
    }
    assert_eq!(bad, 0, "{bad} of 16 builds of the same two documents lost the composite buckets below the terms bucket");
}

// ------------------------------------------------------------------------------------------------
// D5: descending terms source over a JSON path with several column types: the raw column value u64::MAX is skipped
fn json_index(segments: &[Vec<Value>]) -> Index {
    let mut sb = Schema::builder();
    let j = sb.add_json_field("j", FAST);
    let index = Index::create_in_ram(sb.build());
    let mut w: IndexWriter = index.writer_with_num_threads(1, 20_000_000).unwrap();
    for seg in segments {
        for v in seg {
            w.add_document(doc!(j => json!({ "id": v }))).unwrap();
        }
        w.commit().unwrap();
    }
    index
}

fn paging_equals_one_page(index: &Index, sources: &Value, expected_len: usize) {
    let one = composite(index, sources, 10, None);
    println!("one page: {one}");
    assert_eq!(one["buckets"].as_array().unwrap().len(), expected_len);
    let (paged, finished) = all_pages(index, sources, 1, 10);
    assert!(finished);
    assert_eq!(&paged, one["buckets"].as_array().unwrap());
}

#[test]
fn d5_control_desc_mixed_types() {
    let index = json_index(&[vec![json!("2023-01-01T00:00:00Z")], vec![json!(18446744073709551614u64), json!(5)]]);
    paging_equals_one_page(&index, &json!([{ "id": { "terms": { "field": "j.id", "order": "desc" } } }]), 3);
}

#[test]
fn d5_desc_u64_max_after_a_date_key() {
    let index = json_index(&[vec![json!("2023-01-01T00:00:00Z")], vec![json!(18446744073709551615u64), json!(5)]]);
    paging_equals_one_page(&index, &json!([{ "id": { "terms": { "field": "j.id", "order": "desc" } } }]), 3);
}

#[test]
fn d5_desc_i64_max_after_a_date_key() {
    let index = json_index(&[vec![json!("2023-01-01T00:00:00Z")], vec![json!(9223372036854775807i64), json!(-5)]]);
    paging_equals_one_page(&index, &json!([{ "id": { "terms": { "field": "j.id", "order": "desc" } } }]), 3);
}

// ------------------------------------------------------------------------------------------------
// D6: calendar week of a timestamp in the first days of the i64 nanosecond range
#[test]
fn d6_calendar_week_near_i64_min() {
    let mut sb = Schema::builder();
    let dt = sb.add_date_field("dt", FAST);
    let index = Index::create_in_ram(sb.build());
    let mut w: IndexWriter = index.writer_with_num_threads(1, 20_000_000).unwrap();
    w.add_document(doc!(dt => DateTime::from_timestamp_nanos(i64::MIN + 1_000))).unwrap();
    w.commit().unwrap();
    let sources = json!([{ "d": { "date_histogram": { "field": "dt", "calendar_interval": "week" } } }]);
    let page = composite(&index, &sources, 10, None);
    println!("{page}");
    let key = page["buckets"][0]["key"]["d"].as_f64().unwrap();
    // the bucket start is not after the value: i64::MIN ns = -9223372036854.775808 ms
    assert!(key <= -9223372036854.0, "week bucket {key} ms starts after the document's timestamp");
}

// ------------------------------------------------------------------------------------------------
// D0 (control): three segments, two terms sources, every page size: pages == one big page == direct computation
#[test]
fn d0_control_three_segments_two_sources() {
    let mut sb = Schema::builder();
    let cat = sb.add_text_field("cat", STRING | FAST);
    let n = sb.add_u64_field("n", FAST);
    let index = Index::create_in_ram(sb.build());
    let mut w: IndexWriter = index.writer_with_num_threads(1, 20_000_000).unwrap();
    let mut direct: std::collections::BTreeMap<(String, std::cmp::Reverse<u64>), u64> = Default::default();
    for i in 0..60u64 {
        let c = ["a", "b", "c", "d"][((i * 7) % 4) as usize];
        let v = (i * 13 + i / 7) % 5;
        w.add_document(doc!(cat => c, n => v)).unwrap();
        *direct.entry((c.to_string(), std::cmp::Reverse(v))).or_default() += 1;
        if i % 20 == 19 {
            w.commit().unwrap();
        }
    }
    assert_eq!(index.searchable_segment_ids().unwrap().len(), 3);
    let sources = json!([{ "c": { "terms": { "field": "cat" } } }, { "n": { "terms": { "field": "n", "order": "desc" } } }]);
    let want: Vec<Value> = direct.iter().map(|((c, v), cnt)| json!({ "key": { "c": c, "n": v.0 }, "doc_count": cnt })).collect();
    let one = composite(&index, &sources, 100, None);
    assert_eq!(one["buckets"].as_array().unwrap(), &want);
    for size in 1..=7 {
        let mut out = Vec::new();
        let mut after: Option<Value> = None;
        loop {
            let page = composite(&index, &sources, size, after.as_ref());
            let b = page["buckets"].as_array().unwrap().clone();
            if b.is_empty() { break; }
            assert!(b.len() <= size);
            out.extend(b);
            after = Some(page["after_key"].clone());
            assert!(out.len() <= want.len());
        }
        assert_eq!(out, want, "page size {size}");
    }
}

// ------------------------------------------------------------------------------------------------
// D7: histogram / date_histogram source, `order: desc`, `missing_bucket: true` (missing_order default = last for desc):
// the page after the null bucket starts again from the first bucket
#[test]
fn d7_control_histogram_asc_missing_bucket() {
    let index = value_index();
    let sources = json!([{ "h": { "histogram": { "field": "value", "interval": 5.0, "missing_bucket": true } } }]);
    paging_equals_one_page(&index, &sources, 3);
}

#[test]
fn d7_histogram_desc_missing_bucket_paging_ends() {
    let index = value_index();
    let sources = json!([{ "h": { "histogram": { "field": "value", "interval": 5.0, "order": "desc", "missing_bucket": true } } }]);
    let one = composite(&index, &sources, 10, None);
    println!("one page: {one}");
    assert_eq!(keys(one["buckets"].as_array().unwrap(), "h"), vec![json!(5.0), json!(0.0), json!(null)]);
    let (paged, finished) = all_pages(&index, &sources, 1, 10);
    assert!(finished, "paging with size 1 did not reach an empty page within 10 pages: {:?}", keys(&paged, "h"));
    assert_eq!(&paged, one["buckets"].as_array().unwrap());
}

#[test]
fn d7_control_terms_desc_missing_bucket_paging_ends() {
    let index = value_index();
    let sources = json!([{ "h": { "terms": { "field": "value", "order": "desc", "missing_bucket": true } } }]);
    paging_equals_one_page(&index, &sources, 3);
}
