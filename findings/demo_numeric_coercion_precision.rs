//! Native demonstration for unit `column_writer_record` (property C08): what the columnar WRITE side does with a JSON fast-field
//! path that receives integers of both signs / floats in one segment.  `CompatibleNumericalTypes::accept_value` narrows the admissible
//! column types; a path holding a negative i64 and a u64 > i64::MAX (or any float) becomes an F64 column and
//! `serialize_numerical_column` coerces every value with `as f64`: integers above 2^53 are silently rounded.
//! Drop into `tests/` of a copy of the repository: `cargo test --offline --test demo_numeric_coercion_precision -- --nocapture`.
use tantivy::columnar::DynamicColumn;
use tantivy::schema::{Schema, FAST, STORED};
use tantivy::{Index, IndexWriter, TantivyDocument};

/// Index one JSON document per entry of `jsons` in ONE segment and read the fast-field column of path `j.a` back.
fn read_back(jsons: &[&str]) -> Vec<String> {
    let mut schema_builder = Schema::builder();
    let j = schema_builder.add_json_field("j", FAST | STORED);
    let schema = schema_builder.build();
    let index = Index::create_in_ram(schema.clone());
    let mut writer: IndexWriter = index.writer_with_num_threads(1, 20_000_000).unwrap();
    for js in jsons {
        let doc = TantivyDocument::parse_json(&schema, &format!("{{\"j\": {js}}}")).unwrap();
        writer.add_document(doc).unwrap();
    }
    let _ = j;
    writer.commit().unwrap();
    let reader = index.reader().unwrap();
    let searcher = reader.searcher();
    assert_eq!(searcher.segment_readers().len(), 1);
    let segment_reader = searcher.segment_reader(0);
    let handles = segment_reader.fast_fields().dynamic_column_handles("j.a").unwrap();
    assert_eq!(handles.len(), 1, "one numerical column for the path");
    let column = handles[0].open().unwrap();
    let mut out = Vec::new();
    for doc in 0..segment_reader.max_doc() {
        let s = match &column {
            DynamicColumn::I64(c) => format!("i64 {:?}", c.values_for_doc(doc).collect::<Vec<_>>()),
            DynamicColumn::U64(c) => format!("u64 {:?}", c.values_for_doc(doc).collect::<Vec<_>>()),
            DynamicColumn::F64(c) => format!("f64 {:?}", c.values_for_doc(doc).collect::<Vec<_>>()),
            _ => "other".to_string(),
        };
        out.push(s);
    }
    out
}

#[test]
fn same_sign_integers_come_back_exactly() {
    let vals = read_back(&["{\"a\": 9007199254740993}", "{\"a\": -9007199254740993}"]);
    println!("i64 column: {vals:?}");
    assert_eq!(vals, vec!["i64 [9007199254740993]", "i64 [-9007199254740993]"]);
    let vals = read_back(&["{\"a\": 18446744073709551615}", "{\"a\": 3}"]);
    println!("u64 column: {vals:?}");
    assert_eq!(vals, vec!["u64 [18446744073709551615]", "u64 [3]"]);
}

/// C08: "the column returns exactly the values that were added".  A negative integer elsewhere in the segment changes the value
/// read back for the document that holds 18446744073709551615 (u64::MAX): the column is F64 and holds 18446744073709551616.0.
#[test]
fn negative_and_large_unsigned_integer_in_one_segment() {
    let vals = read_back(&["{\"a\": 18446744073709551615}", "{\"a\": -1}"]);
    println!("mixed-sign column: {vals:?}");
    // what the property asks for: an exact representation of both integers
    let exact = vals[0].contains("18446744073709551615") && !vals[0].starts_with("f64");
    assert!(exact, "u64::MAX came back as {}", vals[0]);
}

/// Same effect below u64 range: 2^53 + 1 next to a float.
#[test]
fn integer_above_2_pow_53_next_to_a_float() {
    let vals = read_back(&["{\"a\": 9007199254740993}", "{\"a\": 0.5}"]);
    println!("int + float column: {vals:?}");
    assert!(vals[0].contains("9007199254740993"), "9007199254740993 came back as {}", vals[0]);
}
