// Candidate findings (C03 / C12, unit phrase_carrying_slop): `intersection_count_with_carrying_slop`
// (src/query/phrase_query/phrase_scorer.rs), the merge kernel of sloppy phrases with >= 3 terms.
//
// PhraseQuery::set_slop: "The slop can be considered a budget between all terms."
//
// (A) slop budget stored in a u8.  The slop a surviving position has already spent is kept as `new_slop as u8`
//     (`left_slops: Vec<u8>`), while `max_slop` is a u32 and only `distance <= max_slop` is checked before the cast.  With
//     slop >= 256 a position that has spent exactly 256 is recorded as having spent 0: [a,b,c]~300 matches
//     "a (256 fillers) b (200 fillers) c" (needs 256 + 200 = 456 > 300) but not "a (255 fillers) b (201 fillers) c"
//     (needs the same 456).
// (B) match lost when the right list runs out.  When the two-pointer loop advances the RIGHT index past its end on a left
//     position whose carried slop is too large, the "finish rest" loop still records later left positions that are within
//     budget (add_val) but does not count them.  In the LAST merge step only the count is looked at, so the document is not
//     matched: [a,b,c]~4 matches "x x x x c b a b" but NOT "a x x x c b a b" -- adding a token to a matching document makes
//     it stop matching.  (Normalised positions: a {2, 8}, b {6, 8}, c {4}: the merge of a and b leaves
//     left = [2 (slop 4), 6 (slop 4), 8 (slop 0)]; against c = [4]: 2 -> too far, 6 -> 4 + 2 > 4, right exhausted; the rest
//     loop finds 8 (0 + 4 <= 4) and does not count it.)
//
// Ordinary integration test, public API only: copy into tests/ of a copy of the tree,
//   cargo test --offline --test demo_phrase_carrying_slop -- --nocapture
// Recorded 2026-09-26 on the unchanged /repo (worker w14g):
//   slop_budget_above_255_is_not_truncated      FAILED  gap 256+200: (1, 1, 1)   gap 255+201: (0, 0, 0)
//   slop_budget_controls                        ok
//   extra_occurrence_of_first_term_keeps_match  FAILED  without leading a: (1, 1, 1)   with leading a: (0, 0, 0)
// (count, docset, ranked) agree with each other in every case: the scoring and non-scoring paths use the same kernel (F12 fixed).
use tantivy::collector::{Count, DocSetCollector, TopDocs};
use tantivy::query::PhraseQuery;
use tantivy::schema::{Schema, TEXT};
use tantivy::{doc, Index, IndexWriter, Term};

fn search(docs: &[&str], phrase: &[&str], slop: u32) -> (usize, usize, usize) {
    let mut schema_builder = Schema::builder();
    let text = schema_builder.add_text_field("text", TEXT);
    let index = Index::create_in_ram(schema_builder.build());
    let mut writer: IndexWriter = index.writer_with_num_threads(1, 20_000_000).unwrap();
    for d in docs {
        writer.add_document(doc!(text => *d)).unwrap();
    }
    writer.commit().unwrap();
    let searcher = index.reader().unwrap().searcher();
    let terms: Vec<Term> = phrase.iter().map(|t| Term::from_field_text(text, t)).collect();
    let mut query = PhraseQuery::new(terms);
    query.set_slop(slop);
    let count = searcher.search(&query, &Count).unwrap();
    let docset = searcher.search(&query, &DocSetCollector).unwrap().len();
    let ranked = searcher
        .search(&query, &TopDocs::with_limit(10).order_by_score())
        .unwrap()
        .len();
    (count, docset, ranked)
}

fn gap_doc(gap_ab: usize, gap_bc: usize) -> String {
    let mut s = String::from("a");
    for _ in 0..gap_ab { s.push_str(" x"); }
    s.push_str(" b");
    for _ in 0..gap_bc { s.push_str(" x"); }
    s.push_str(" c");
    s
}

// (A) both documents need a total slop of 456 > 300: neither may match
#[test]
fn slop_budget_above_255_is_not_truncated() {
    let d256 = gap_doc(256, 200);
    let d255 = gap_doc(255, 201);
    let r256 = search(&[&d256], &["a", "b", "c"], 300);
    let r255 = search(&[&d255], &["a", "b", "c"], 300);
    println!("gap 256+200: {r256:?}   gap 255+201: {r255:?}");
    assert_eq!(r255, (0, 0, 0), "255 + 201 > 300");
    assert_eq!(r256, (0, 0, 0), "256 + 200 > 300: same total, must not match either");
}

// control for (A): with a budget that covers both gaps the document matches; below 256 the budget is honoured
#[test]
fn slop_budget_controls() {
    assert_eq!(search(&[&gap_doc(256, 200)], &["a", "b", "c"], 456), (1, 1, 1));
    assert_eq!(search(&[&gap_doc(100, 100)], &["a", "b", "c"], 199), (0, 0, 0));
    assert_eq!(search(&[&gap_doc(100, 100)], &["a", "b", "c"], 200), (1, 1, 1));
}

// (B) adding an unrelated earlier occurrence of the first term must not un-match the document
#[test]
fn extra_occurrence_of_first_term_keeps_match() {
    let without = search(&["x x x x c b a b"], &["a", "b", "c"], 4);
    let with = search(&["a x x x c b a b"], &["a", "b", "c"], 4);
    println!("without leading a: {without:?}   with leading a: {with:?}");
    assert_eq!(without, (1, 1, 1), "\"c b a b\": a b adjacent, c four positions off: within slop 4");
    assert_eq!(with, (1, 1, 1), "the same occurrence is still there");
}
