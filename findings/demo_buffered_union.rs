// Candidate findings (C13, units docset_buffered_union / buffered_union_programs_bounded): BufferedUnionScorer,
// "Once the end is reached every further call keeps reporting the end, and the score read at a document does not depend on
// how the document was reached."
//
// D1  count_including_deleted() consumes the union but leaves `doc` on the last window start and sets
//     bucket_idx = HORIZON_NUM_TINYBITSETS: doc() keeps reporting a document instead of TERMINATED (the default
//     DocSet::count_including_deleted and SimpleUnion's override end on TERMINATED), and a following seek(t) with
//     doc() < t < window_start + 4096 evaluates `&mut self.bitsets[64..new_bucket_idx]` and panics.
// D2  fill_buffer() drains documents from the bitsets without clearing their score-combiner slots and without refreshing
//     `self.score`.  When it stops on a full buffer (the only exit that leaves the union un-terminated) score() is the score
//     of an EARLIER document, and every slot drained by fill_buffer keeps its old contributions, which are added to the
//     document that gets the same slot in the next window.
// (Found by the Verus unit: the invariant "every slot whose bit is not set is clear" is preserved by advance / seek / build but
//  cannot be proved for fill_buffer / count_including_deleted; both functions were then read against the contract.)
//
// In-crate test (BufferedUnionScorer::build is pub(crate), VecDocSet is cfg(test)): append this file to
// src/query/union/buffered_union.rs of a copy of the tree, then `cargo test --offline --lib -- verif_native_probe --nocapture`.
// Recorded 2026-09-25 on the unchanged /repo:
//   d1_count_leaves_stale_doc     FAILED  doc() after count_including_deleted = 5 (TERMINATED = 2147483647)
//   d1b_seek_after_count_panics   FAILED  panicked at src/query/union/buffered_union.rs:230:54: slice index starts at 64 but ends at 0
//   d2_score_after_fill_buffer    FAILED  score depends on the path: (doc, got, expected) = [(64, 3.0, 1.0), (5001, 4.0, 1.0)]
#[cfg(test)]
mod verif_native_probe {
    use super::*;
    use crate::query::score_combiner::SumCombiner;
    use crate::query::{ConstScorer, VecDocSet};

    fn child(docs: Vec<DocId>, score: Score) -> ConstScorer<VecDocSet> {
        ConstScorer::new(VecDocSet::from(docs), score)
    }

    // D1: count_including_deleted leaves doc() on a stale document, and a following seek panics
    #[test]
    fn d1_count_leaves_stale_doc() {
        let mut u = BufferedUnionScorer::build(vec![child(vec![5], 1.0)], DoNothingCombiner::default, 100);
        assert_eq!(u.doc(), 5);
        assert_eq!(u.count_including_deleted(), 1);
        println!("D1 doc() after count_including_deleted = {} (TERMINATED = {})", u.doc(), TERMINATED);
        assert_eq!(u.doc(), TERMINATED, "doc() after the doc-set was consumed by count_including_deleted");
    }
    #[test]
    fn d1b_seek_after_count_panics() {
        let mut u = BufferedUnionScorer::build(vec![child(vec![5], 1.0)], DoNothingCombiner::default, 100);
        assert_eq!(u.count_including_deleted(), 1);
        let r = u.seek(6);
        assert_eq!(r, TERMINATED);
    }
    // D2: fill_buffer that stops on a full buffer leaves score() stale and combiner slots un-cleared
    #[test]
    fn d2_score_after_fill_buffer() {
        // child a: 0..=64 and 5000, 5001 ; child b: only doc 0 and doc 1
        let mut a: Vec<DocId> = (0..=64).collect();
        a.push(5000); a.push(5001);
        let mk = || BufferedUnionScorer::build(vec![child({ let mut a: Vec<DocId> = (0..=64).collect(); a.push(5000); a.push(5001); a }, 1.0), child(vec![0, 1], 2.0)], SumCombiner::default, 10_000);
        // reference: plain advance
        let mut r = mk();
        let mut want = std::collections::BTreeMap::new();
        while r.doc() != TERMINATED { want.insert(r.doc(), r.score()); r.advance(); }
        let mut u = mk();
        assert_eq!(u.doc(), 0);
        let mut buf = [0u32; COLLECT_BLOCK_BUFFER_LEN];
        assert_eq!(u.fill_buffer(&mut buf), 64);
        println!("D2 after fill_buffer: doc() = {} score() = {} expected {}", u.doc(), u.score(), want[&u.doc()]);
        let mut bad = Vec::new();
        if u.score() != want[&u.doc()] { bad.push((u.doc(), u.score(), want[&u.doc()])); }
        loop {
            let d = u.advance();
            if d == TERMINATED { break; }
            println!("D2 advance -> doc {} score {} expected {}", d, u.score(), want[&d]);
            if u.score() != want[&d] { bad.push((d, u.score(), want[&d])); }
        }
        assert!(bad.is_empty(), "score depends on the path: (doc, got, expected) = {:?}", bad);
    }
}
