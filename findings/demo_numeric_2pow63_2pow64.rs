// Finding (C14, also C03; Kani units numerical_normalize and composite_num_cmp): `i64::MAX as f64` is 2^63 and `u64::MAX as f64` is 2^64
// (the casts round UP), and `x as i64` / `x as u64` saturate.  Range tests of the form `val <= MAX as f64` therefore let 2^63 / 2^64 through
// and the following cast silently turns them into MAX.
//
// OBSERVABLE (this file): NumericalValue::normalize (columnar/src/value.rs)
//     F64(val) if fract == 0.0 && val >= i64::MIN as f64 && val <= i64::MAX as f64 => I64(val as i64)
//     F64(val) if fract == 0.0 && val >= 0 && val <= u64::MAX as f64              => U64(val as u64)
//   normalize(F64(9223372036854775808.0))  == I64(9223372036854775807)      normalize(F64(18446744073709551616.0)) == U64(18446744073709551615)
// normalize is applied to every f64 column value that becomes a terms / composite bucket key and to every JSON number that becomes a term:
//   * terms and composite aggregations count a document holding 2^63 in the bucket 9223372036854775807 (merged with the documents that
//     really hold i64::MAX); same for 2^64 and u64::MAX: bucket keys/counts differ from the direct computation over the field values;
//   * the term query j.n:9223372036854775807 matches the document holding 9223372036854775808.0.
// Kani proves normalize value-preserving and canonical for every other i64 / u64 / f64 input.
//
// LATENT (same root cause, Kani witnesses in unit composite_num_cmp, every other input proved exact):
//   num_cmp::cmp_u64_f64(u64::MAX, 2^64) == Equal, num_proj::f64_to_u64(2^64) == Exact(u64::MAX),
//   num_proj::i64_to_f64(i64::MAX) == Exact(2^63), num_proj::u64_to_f64(u64::MAX) == Exact(2^64).
// They decide the order of mixed-type composite keys and project the `after` key into a column's value space (Exact(v) = "v was already
// returned, skip it").  Today they cannot be observed because normalize has already merged 2^63 into the i64::MAX bucket (paging skips the
// merged bucket consistently, see `paging_is_consistent_with_the_merged_bucket`); repairing normalize alone would make composite paging
// lose the 2^63 / 2^64 bucket, so the five sites must be repaired together (`<` instead of `<=`, resp. `>=` instead of `>`, and an exact
// round-trip test in i64_to_f64 / u64_to_f64, e.g. comparing in i128).
//
// Ordinary integration test, public API only: copy into tests/ of a copy of the tree,
//   cargo test --offline --test demo_numeric_2pow63_2pow64 -- --nocapture --test-threads 1
// Recorded 2026-09-26 on /repo (76f9be9 era tree): control ... ok, paging_is_consistent_with_the_merged_bucket ... ok,
//   terms_bucket_of_2pow63 / composite_bucket_of_2pow63 / terms_bucket_of_2pow64 / term_query_i64_max_does_not_match_2pow63 ... FAILED
use serde_json::{json, Value};
use tantivy::aggregation::agg_req::Aggregations;
use tantivy::aggregation::AggregationCollector;
use tantivy::collector::Count;
use tantivy::query::{AllQuery, QueryParser};
use tantivy::schema::{Schema, FAST, TEXT};
use tantivy::{Index, IndexWriter, TantivyDocument};

/// one document {"j": {"n": <number text>}} per entry, one segment per entry (so that every segment has ONE numeric column type)
fn index_of(numbers: &[&str]) -> Index {
    let mut sb = Schema::builder();
    sb.add_json_field("j", FAST | TEXT);
    let schema = sb.build();
    let index = Index::create_in_ram(schema.clone());
    let mut w: IndexWriter = index.writer_with_num_threads(1, 20_000_000).unwrap();
    for n in numbers {
        let doc = TantivyDocument::parse_json(&schema, &format!(r#"{{"j": {{"n": {n}}}}}"#)).unwrap();
        w.add_document(doc).unwrap();
        w.commit().unwrap();
    }
    index
}

fn agg(index: &Index, req: Value) -> Value {
    let aggs: Aggregations = serde_json::from_value(req).unwrap();
    let collector = AggregationCollector::from_aggs(aggs, Default::default());
    let searcher = index.reader().unwrap().searcher();
    serde_json::to_value(searcher.search(&AllQuery, &collector).unwrap()).unwrap()
}

fn terms_buckets(index: &Index) -> Vec<Value> {
    let res = agg(index, json!({ "t": { "terms": { "field": "j.n", "order": { "_key": "asc" } } } }));
    println!("terms: {}", res["t"]);
    res["t"]["buckets"].as_array().unwrap().clone()
}

fn composite_page(index: &Index, size: u32, after: Option<Value>) -> Value {
    let mut req = json!({ "c": { "composite": { "sources": [ { "n": { "terms": { "field": "j.n" } } } ], "size": size } } });
    if let Some(a) = after {
        req["c"]["composite"]["after"] = a;
    }
    let res = agg(index, req);
    println!("composite: {}", res["c"]);
    res["c"].clone()
}

const I64_MAX: &str = "9223372036854775807";
const TWO63: &str = "9223372036854775808.0";
const U64_MAX: &str = "18446744073709551615";
const TWO64: &str = "18446744073709551616.0";

#[test]
fn control() {
    // one below the boundary: two buckets, exact keys
    let index = index_of(&["9223372036854775806", "9223372036854775807", "7", "7.5"]);
    let b = terms_buckets(&index);
    assert_eq!(b.len(), 4);
    assert_eq!(composite_page(&index, 10, None)["buckets"].as_array().unwrap().len(), 4);
}

#[test]
fn terms_bucket_of_2pow63() {
    let index = index_of(&[I64_MAX, TWO63]);
    let b = terms_buckets(&index);
    // direct computation: two distinct values, one document each
    assert_eq!(b.len(), 2, "2^63 and 2^63 - 1 are different values");
}

#[test]
fn composite_bucket_of_2pow63() {
    let index = index_of(&[I64_MAX, TWO63]);
    let p = composite_page(&index, 10, None);
    assert_eq!(p["buckets"].as_array().unwrap().len(), 2, "2^63 and 2^63 - 1 are different values");
}

#[test]
fn terms_bucket_of_2pow64() {
    let index = index_of(&[U64_MAX, TWO64]);
    let b = terms_buckets(&index);
    assert_eq!(b.len(), 2, "2^64 and 2^64 - 1 are different values");
}

#[test]
fn term_query_i64_max_does_not_match_2pow63() {
    let index = index_of(&[TWO63]);
    let j = index.schema().get_field("j").unwrap();
    let q = QueryParser::for_index(&index, vec![j]).parse_query(&format!("j.n:{I64_MAX}")).unwrap();
    let n = index.reader().unwrap().searcher().search(&q, &Count).unwrap();
    assert_eq!(n, 0, "the only document holds 9223372036854775808.0, not 9223372036854775807");
}

#[test]
fn paging_is_consistent_with_the_merged_bucket() {
    // the latent num_proj errors agree with normalize's: after the (wrongly merged) bucket i64::MAX nothing is left
    let index = index_of(&[I64_MAX, TWO63]);
    let p1 = composite_page(&index, 1, None);
    assert_eq!(p1["buckets"][0]["doc_count"], json!(2));
    let p2 = composite_page(&index, 1, Some(p1["after_key"].clone()));
    assert_eq!(p2["buckets"], json!([]));
}
