//! Native demonstration for unit `columnar_merge_grouping` (properties C04 / C08): "Merging never changes the logical content of
//! the index ... fast-field values"; "merging columnar data ... with differing column sets and numeric types that must be coerced".
//! MERGE-side counterpart of known finding F23 (write side).  Two segments hold the JSON fast-field path `j.a` with exactly
//! representable integer columns of DIFFERENT numerical types (segment 0: U64 column holding u64::MAX, segment 1: I64 column
//! holding -1).  Before the merge every document reads back its exact integer.  `merge_columnar` groups both columns under
//! (name, ColumnTypeCategory::Numerical); `merged_numerical_columns_type` finds neither i64 nor u64 compatible with
//! [min, max] of both and falls back to F64; `coerce_columns` converts every value with `as f64`: after the merge the document
//! that held 18446744073709551615 reads back 18446744073709551616.0, the one that held 9007199254740993 reads 9007199254740992.0.
//! The merge changed stored values although no document was added or deleted.
//! Recorded 2026-09-26 on the unchanged /repo (worker w14g):
//!   merge_of_compatible_integer_columns_is_exact                        ok
//!   merge_of_u64_and_negative_i64_columns_keeps_the_integers            FAILED  before ["i64 [-1]", "u64 [18446744073709551615]"] after ["f64 [-1.0]", "f64 [1.8446744073709552e19]"]
//!   merge_of_large_u64_and_negative_i64_columns_keeps_2_pow_53_plus_1   FAILED  before ["u64 [9223372036854775809]", "u64 [9007199254740993]", "i64 [-1]"] after ["f64 [9.223372036854776e18]", "f64 [9007199254740992.0]", "f64 [-1.0]"]
//! Drop into `tests/` of a copy of the repository: `cargo test --offline --test demo_merge_numeric_coercion -- --nocapture`.
use tantivy::columnar::DynamicColumn;
use tantivy::indexer::NoMergePolicy;
use tantivy::schema::{Schema, FAST, STORED};
use tantivy::{Index, IndexWriter, Searcher, TantivyDocument};

fn read_all(searcher: &Searcher) -> Vec<String> {
    let mut out = Vec::new();
    for segment_reader in searcher.segment_readers() {
        let handles = segment_reader.fast_fields().dynamic_column_handles("j.a").unwrap();
        assert_eq!(handles.len(), 1, "one numerical column for the path");
        let column = handles[0].open().unwrap();
        for doc in 0..segment_reader.max_doc() {
            let s = match &column {
                DynamicColumn::I64(c) => format!("i64 {:?}", c.values_for_doc(doc).collect::<Vec<_>>()),
                DynamicColumn::U64(c) => format!("u64 {:?}", c.values_for_doc(doc).collect::<Vec<_>>()),
                DynamicColumn::F64(c) => format!("f64 {:?}", c.values_for_doc(doc).collect::<Vec<_>>()),
                _ => "other".to_string(),
            };
            out.push(s);
        }
    }
    out
}

/// one segment per entry of `segments`; returns (values before the merge, values after the merge), in document order
fn before_and_after_merge(segments: &[&[&str]]) -> (Vec<String>, Vec<String>) {
    let mut schema_builder = Schema::builder();
    let _j = schema_builder.add_json_field("j", FAST | STORED);
    let schema = schema_builder.build();
    let index = Index::create_in_ram(schema.clone());
    let mut writer: IndexWriter = index.writer_with_num_threads(1, 20_000_000).unwrap();
    writer.set_merge_policy(Box::new(NoMergePolicy));
    for seg in segments {
        for js in seg.iter() {
            let doc = TantivyDocument::parse_json(&schema, &format!("{{\"j\": {js}}}")).unwrap();
            writer.add_document(doc).unwrap();
        }
        writer.commit().unwrap();
    }
    let reader = index.reader().unwrap();
    let searcher = reader.searcher();
    assert_eq!(searcher.segment_readers().len(), segments.len());
    let before = read_all(&searcher);
    let segment_ids = index.searchable_segment_ids().unwrap();
    writer.merge(&segment_ids).wait().unwrap();
    reader.reload().unwrap();
    let searcher = reader.searcher();
    assert_eq!(searcher.segment_readers().len(), 1);
    let after = read_all(&searcher);
    (before, after)
}

fn digits(s: &str) -> String { s.split_whitespace().skip(1).collect::<Vec<_>>().join(" ") }

// control: same numerical type in both segments, or types that a common integer type can hold: the merge is exact
#[test]
fn merge_of_compatible_integer_columns_is_exact() {
    let (before, after) = before_and_after_merge(&[&["{\"a\": 9223372036854775807}"], &["{\"a\": -9007199254740993}"]]);
    println!("i64 + i64: before {before:?} after {after:?}");
    assert_eq!(before, after);
    let (before, after) = before_and_after_merge(&[&["{\"a\": 18446744073709551615}"], &["{\"a\": 3}"]]);
    println!("u64 + small: before {before:?} after {after:?}");
    assert_eq!(before.iter().map(|s| digits(s)).collect::<Vec<_>>(), after.iter().map(|s| digits(s)).collect::<Vec<_>>());
}

// C04: the merged segment must hold the values of the source segments
#[test]
fn merge_of_u64_and_negative_i64_columns_keeps_the_integers() {
    let (before, after) = before_and_after_merge(&[&["{\"a\": 18446744073709551615}"], &["{\"a\": -1}"]]);
    println!("u64::MAX | -1: before {before:?} after {after:?}");
    // (segment readers are not listed in commit order)
    assert!(before.contains(&"u64 [18446744073709551615]".to_string()) && before.contains(&"i64 [-1]".to_string()));
    assert!(after.iter().any(|s| s.contains("18446744073709551615") && !s.starts_with("f64")), "u64::MAX is gone after the merge: {after:?}");
}

#[test]
fn merge_of_large_u64_and_negative_i64_columns_keeps_2_pow_53_plus_1() {
    // 9223372036854775809 = 2^63 + 1 forces a U64 column in segment 0; the second document of that segment is 2^53 + 1
    let (before, after) = before_and_after_merge(&[&["{\"a\": 9223372036854775809}", "{\"a\": 9007199254740993}"], &["{\"a\": -1}"]]);
    println!("(2^63+1, 2^53+1) | -1: before {before:?} after {after:?}");
    assert!(before.iter().any(|s| s.contains("9007199254740993")));
    assert!(after.iter().any(|s| s.contains("9007199254740993")), "9007199254740993 is gone after the merge: {after:?}");
}
