// Native demonstration of finding F-store-empty (C09), found by units store_skip_index (hypothesis L >= 1 of SkipIndex::seek)
// and store_block_layout (send_current_block_to_compressor ignores doc_pos when current_block is empty).
//
// How to run (scratch copy, never /repo): paste the three tests below right after the line `pub(crate) mod tests {` of
// src/store/mod.rs in a copy of the tree, then
//     CARGO_TARGET_DIR=<copy of /repo/target> cargo test --offline --lib store::tests::verif_ -- --nocapture --test-threads=1
//
// Recorded output (2026-09-26, unchanged tree):
//   VERIF empty skip index: seek(0) = Some((doc=0..1, bytes=0..0)), seek(7) = Some((doc=0..1, bytes=0..0))
//   VERIF empty store: checkpoints = 0
//   thread .. panicked at src/store/reader.rs:361:25: attempt to subtract with overflow      (block_read_index(&[], 0))
//   VERIF empty store: get_document_bytes(0) -> Err("PANIC")
//   VERIF two empty docs stored: checkpoints = []                                            (both documents lost)
//   VERIF two empty docs stored: get_document_bytes(0) -> Err("PANIC")
//
// 1. SkipIndex built from zero checkpoints has zero layers; SkipIndex::seek(d) returns Some(Checkpoint{doc_range: 0..1, byte_range: 0..0})
//    for every d (property: None when d >= last doc).  StoreReader::get_document_bytes(0) on an empty store therefore reads an empty
//    block and panics in block_read_index instead of returning Err.
// 2. StoreWriter::store_bytes(&[]) (public) for every document of a block: send_current_block_to_compressor returns early because
//    current_block is empty, doc_pos is never flushed - not even by close() - so the documents are silently dropped.
//    (The typed path StoreWriter::store always writes >= 1 byte per document, so this needs the raw-bytes API.)

    // ---- verif demos (scratch copy only)
    #[test]
    fn verif_empty_store_get_doc0() {
        use crate::directory::RamDirectory;
        use crate::Directory;
        let path = std::path::Path::new("store");
        let directory = RamDirectory::create();
        let writer = directory.open_write(path).unwrap();
        let store_writer = super::StoreWriter::new(writer, super::Compressor::None, 16_384, false).unwrap();
        store_writer.close().unwrap();
        let store_file = directory.open_read(path).unwrap();
        let reader = super::StoreReader::open(store_file, 10).unwrap();
        println!("VERIF empty store: checkpoints = {}", reader.block_checkpoints().count());
        let r = std::panic::catch_unwind(std::panic::AssertUnwindSafe(|| reader.get_document_bytes(0).map(|b| b.len())));
        println!("VERIF empty store: get_document_bytes(0) -> {:?}", r.as_ref().map_err(|_| "PANIC"));
    }
    #[test]
    fn verif_only_empty_docs_are_lost() {
        use crate::directory::RamDirectory;
        use crate::Directory;
        let path = std::path::Path::new("store");
        let directory = RamDirectory::create();
        let writer = directory.open_write(path).unwrap();
        let mut store_writer = super::StoreWriter::new(writer, super::Compressor::None, 16_384, false).unwrap();
        store_writer.store_bytes(&[]).unwrap();
        store_writer.store_bytes(&[]).unwrap();
        store_writer.close().unwrap();
        let store_file = directory.open_read(path).unwrap();
        let reader = super::StoreReader::open(store_file, 10).unwrap();
        let cps: Vec<_> = reader.block_checkpoints().collect();
        println!("VERIF two empty docs stored: checkpoints = {:?}", cps);
        let r = std::panic::catch_unwind(std::panic::AssertUnwindSafe(|| reader.get_document_bytes(0).map(|b| b.len())));
        println!("VERIF two empty docs stored: get_document_bytes(0) -> {:?}", r.as_ref().map_err(|_| "PANIC"));
    }
    #[test]
    fn verif_empty_skip_index_seek() {
        let mut output: Vec<u8> = Vec::new();
        let b = super::index::SkipIndexBuilder::new();
        b.serialize_into(&mut output).unwrap();
        let idx = super::index::SkipIndex::open(common::OwnedBytes::new(output));
        println!("VERIF empty skip index: seek(0) = {:?}, seek(7) = {:?}", idx.seek(0), idx.seek(7));
    }
