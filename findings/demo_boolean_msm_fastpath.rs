// Finding (C03, unit boolean_complex_scorer), since fixed: "the answer is the same whether it
// is obtained by counting, by collecting document ids or by ranking".
//
// BooleanWeight::scorer (src/query/boolean_query/boolean_weight.rs) has a fast path for a query with exactly ONE clause:
//     } else if self.weights.len() == 1 { .. if occur == Occur::MustNot { EmptyScorer } else { weight.scorer(reader, boost) }
// It ignores `minimum_number_should_match`.  BooleanWeight::complex_scorer (the path `for_each`, `for_each_no_score` and
// `for_each_pruning` take, for ANY number of clauses) honours it: "effective_minimum_number_should_match > num_of_should_scorers
// => EmptyScorer" ("We don't have enough scorers to satisfy the minimum number of should matches.  The request will match no
// documents.").  Hence for a one-clause query that demands more should-matches than it has should clauses
//     BooleanQuery::with_minimum_required_clauses(vec![(Should, a)], 2)      or     (vec![(Must, a)], 1)
// Weight::scorer / Weight::count (=> the Count collector, explain, and every ENCLOSING query, which calls sub_weight.scorer())
// report every document of `a`, while DocSetCollector and TopDocs on the same searcher report none.
// The repository's own test `test_minimum_required` expects "Nothing queried since minimum_required is too large" for 2 clauses / 3.
//
// Ordinary integration test, public API only: copy into tests/ of a copy of the tree,
//   cargo test --offline --test demo_boolean_msm_fastpath
// FIXED in /repo afterwards (commit "fix: single-clause boolean query ignored minimum_number_should_match when counting": the fast path
// answers EmptyScorer when minimum_number_should_match > usize::from(occur == Occur::Should)); unit boolean_complex_scorer now proves the
// unrestricted claim and its mutant fastpath_msm_fix_reverted.patch restores the defect.  (This test file was not re-run after the fix.)
// Recorded 2026-09-26 on the tree BEFORE the fix:
//   control_two_should_clauses_three_required_matches_nothing            ok
//   one_should_clause_two_required_same_answer_for_every_collector       FAILED  count=2 docset=0 ranked=0
//   one_must_clause_one_should_required_same_answer_for_every_collector  FAILED  count=2 docset=0 ranked=0
//   nested_one_should_clause_two_required                                FAILED  (alone, c OR inner) = (0, 3), expected (0, 1)
use tantivy::collector::{Count, DocSetCollector, TopDocs};
use tantivy::query::{BooleanQuery, Occur, Query, TermQuery};
use tantivy::schema::{IndexRecordOption, Schema, TEXT};
use tantivy::{doc, Index, IndexWriter, Term};

fn answers(clauses: &[(Occur, &str)], minimum_should_match: usize) -> (usize, usize, usize) {
    let mut schema_builder = Schema::builder();
    let text = schema_builder.add_text_field("text", TEXT);
    let index = Index::create_in_ram(schema_builder.build());
    let mut writer: IndexWriter = index.writer_with_num_threads(1, 20_000_000).unwrap();
    for d in ["a", "a b", "c"] {
        writer.add_document(doc!(text => d)).unwrap();
    }
    writer.commit().unwrap();
    let searcher = index.reader().unwrap().searcher();
    let subqueries: Vec<(Occur, Box<dyn Query>)> = clauses
        .iter()
        .map(|(occur, term)| {
            let q: Box<dyn Query> = Box::new(TermQuery::new(
                Term::from_field_text(text, term),
                IndexRecordOption::WithFreqs,
            ));
            (*occur, q)
        })
        .collect();
    let query = BooleanQuery::with_minimum_required_clauses(subqueries, minimum_should_match);
    let count = searcher.search(&query, &Count).unwrap();
    let docset = searcher.search(&query, &DocSetCollector).unwrap().len();
    let ranked = searcher
        .search(&query, &TopDocs::with_limit(10).order_by_score())
        .unwrap()
        .len();
    (count, docset, ranked)
}

#[test]
fn control_two_should_clauses_three_required_matches_nothing() {
    assert_eq!(answers(&[(Occur::Should, "a"), (Occur::Should, "b")], 3), (0, 0, 0));
}

#[test]
fn one_should_clause_two_required_same_answer_for_every_collector() {
    let (count, docset, ranked) = answers(&[(Occur::Should, "a")], 2);
    assert!(
        count == docset && docset == ranked,
        "count={count} docset={docset} ranked={ranked}"
    );
}

#[test]
fn one_must_clause_one_should_required_same_answer_for_every_collector() {
    let (count, docset, ranked) = answers(&[(Occur::Must, "a")], 1);
    assert!(
        count == docset && docset == ranked,
        "count={count} docset={docset} ranked={ranked}"
    );
}

// the enclosing query calls sub_weight.scorer(): the inner one-clause query behaves as `a` there
#[test]
fn nested_one_should_clause_two_required() {
    let mut schema_builder = Schema::builder();
    let text = schema_builder.add_text_field("text", TEXT);
    let index = Index::create_in_ram(schema_builder.build());
    let mut writer: IndexWriter = index.writer_with_num_threads(1, 20_000_000).unwrap();
    for d in ["a", "a b", "c"] {
        writer.add_document(doc!(text => d)).unwrap();
    }
    writer.commit().unwrap();
    let searcher = index.reader().unwrap().searcher();
    let tq = |t: &str| -> Box<dyn Query> {
        Box::new(TermQuery::new(Term::from_field_text(text, t), IndexRecordOption::WithFreqs))
    };
    let inner: Box<dyn Query> = Box::new(BooleanQuery::with_minimum_required_clauses(vec![(Occur::Should, tq("a"))], 2));
    // (+c) OR inner : inner alone matches nothing through DocSetCollector, so the union should be {c}
    let alone = searcher.search(&*inner, &DocSetCollector).unwrap().len();
    let outer = BooleanQuery::new(vec![(Occur::Should, tq("c")), (Occur::Should, inner)]);
    let nested = searcher.search(&outer, &DocSetCollector).unwrap().len();
    assert_eq!((alone, nested), (0, 1), "inner alone / c OR inner");
}
