// Candidate findings (C12, unit explain_matches_score): "explain() returns a breakdown whose value is that same score" /
// "explain returns an error iff the document does not match".
//
// E1  BoostWeight::explain (src/query/boost_query.rs:74) returns inner.explain().value() * boost, while the score comes from the inner
//     scorer built with boost 1.0 * boost (BoostWeight::scorer -> TermWeight::scorer -> Bm25Weight::boost_by): for a BoostQuery over one
//     TermQuery that is (weight * tf_factor) * boost versus (weight * boost) * tf_factor, two f32 associations of the same product.
//     The two values differ in the last bit for about a third of the (boost, document) pairs tried (single scoring clause).
//     Witness: Verus unit explain_matches_score --define E1 (BoostWeight::explain postcondition refuted at src/query/boost_query.rs:74).
// E2  BooleanWeight::explain (boolean_weight.rs:489), ConstWeight::explain (const_score_query.rs:73) and PhraseWeight::explain
//     (phrase_weight.rs:91) call `scorer.seek(doc)` on the freshly built scorer without testing `scorer.doc() <= doc` (TermWeight::explain
//     does test it).  DocSet::seek documents "`target` has to be larger or equal to `.doc()`"; TermScorer::seek, SegmentPostings::seek and
//     PhraseScorer::seek debug_assert it.  For a non-matching document that lies before the first matching one, a build with debug
//     assertions panics instead of answering Err("Document #(..) does not match"); a release build answers correctly.
//     Witness: Verus unit explain_matches_score --define E2 (precondition of `scorer.seek(doc)` refuted at the three lines).
//
// Integration test through the public API: copy to tests/verif_explain_boost.rs of a copy of the tree, then
// `cargo test --offline --test verif_explain_boost -- --nocapture --test-threads 1`.  Recorded 2026-09-26 on the unchanged /repo:
//   debug build (debug assertions on):
//     boosted_term_query_explain_value_is_the_score                                  FAILED  checked 160 (boost, doc) pairs, 50 mismatches; first:
//         (boost 0.47, doc 2: score 0.23926944, explain 0.23926945), (0.47, 1: 0.21311022 / 0.21311024), (0.84000003, 4: 0.44587412 / 0.4458741)
//     boolean_explain_of_non_matching_doc_before_first_match_is_an_error_not_a_panic FAILED  panicked at src/query/term_query/term_scorer.rs:123:9: assertion failed: target >= self.doc()
//     boolean_two_must_explain_of_non_matching_doc_before_first_match                FAILED  same panic
//     const_score_explain_of_non_matching_doc_before_first_match                     FAILED  same panic
//     phrase_explain_of_non_matching_doc_before_first_match                          FAILED  panicked at src/query/phrase_query/phrase_scorer.rs:540:9: assertion failed: target >= self.doc()
//     plain_term_query_explain_value_is_the_score, boolean_query_explain_value_is_the_score,
//     term_explain_of_non_matching_doc_before_first_match_is_an_error                ok (controls)
//     observation_many_must_clauses_topdocs_vs_explain                               ok (never fails)  prints: 5 must clauses: 160 hits, 80 with
//         explain().value() != TopDocs score in the last bit; first (doc 17: topdocs 0.43923435, explain 0.43923432)  [rounding of the sum: allowed by C12]
//   release build (`--release`): only boosted_term_query_explain_value_is_the_score fails (same 50 mismatches); the E2 tests answer Err.
use tantivy::collector::TopDocs;
use tantivy::query::{BooleanQuery, BoostQuery, Occur, Query, TermQuery};
use tantivy::schema::{IndexRecordOption, Schema, TEXT};
use tantivy::{doc, DocAddress, Index, IndexWriter, Term};

fn build() -> (Index, tantivy::schema::Field) {
    let mut sb = Schema::builder();
    let text = sb.add_text_field("text", TEXT);
    let index = Index::create_in_ram(sb.build());
    let mut w: IndexWriter = index.writer_with_num_threads(1, 20_000_000).unwrap();
    // documents of different lengths and term frequencies
    w.add_document(doc!(text => "a")).unwrap();
    w.add_document(doc!(text => "a b c d e")).unwrap();
    w.add_document(doc!(text => "a a b c d e f g h")).unwrap();
    w.add_document(doc!(text => "b c d")).unwrap();
    w.add_document(doc!(text => "a a a x y z u v w q r s t")).unwrap();
    w.add_document(doc!(text => "c")).unwrap();
    w.commit().unwrap();
    (index, text)
}

#[test]
fn boosted_term_query_explain_value_is_the_score() {
    let (index, text) = build();
    let searcher = index.reader().unwrap().searcher();
    let mut mismatches = Vec::new();
    let mut checked = 0;
    for k in 1..=40u32 {
        let boost = 0.1f32 + (k as f32) * 0.37f32;
        let tq = TermQuery::new(Term::from_field_text(text, "a"), IndexRecordOption::WithFreqs);
        let q = BoostQuery::new(Box::new(tq), boost);
        let top: Vec<(f32, DocAddress)> = searcher.search(&q, &TopDocs::with_limit(10).order_by_score()).unwrap();
        for (score, addr) in top {
            let e = q.explain(&searcher, addr).unwrap();
            checked += 1;
            if e.value().to_bits() != score.to_bits() {
                mismatches.push((boost, addr.doc_id, score, e.value()));
            }
        }
    }
    println!("checked {checked} (boost, doc) pairs, {} mismatches; first: {:?}", mismatches.len(), mismatches.iter().take(5).collect::<Vec<_>>());
    assert!(mismatches.is_empty(), "explain().value() != score for (boost, doc, score, explain): {:?}", &mismatches[..mismatches.len().min(5)]);
}

// control: without the boost wrapper the two are bit-identical
#[test]
fn plain_term_query_explain_value_is_the_score() {
    let (index, text) = build();
    let searcher = index.reader().unwrap().searcher();
    let q = TermQuery::new(Term::from_field_text(text, "a"), IndexRecordOption::WithFreqs);
    let top: Vec<(f32, DocAddress)> = searcher.search(&q, &TopDocs::with_limit(10).order_by_score()).unwrap();
    assert_eq!(top.len(), 4);
    for (score, addr) in top {
        assert_eq!(q.explain(&searcher, addr).unwrap().value().to_bits(), score.to_bits());
    }
}

// a boolean query of two should clauses: top value of explain is the scorer's own score (bit-identical)
#[test]
fn boolean_query_explain_value_is_the_score() {
    let (index, text) = build();
    let searcher = index.reader().unwrap().searcher();
    let mk = |t: &str| -> Box<dyn Query> { Box::new(TermQuery::new(Term::from_field_text(text, t), IndexRecordOption::WithFreqs)) };
    let q = BooleanQuery::new(vec![(Occur::Should, mk("a")), (Occur::Should, mk("b")), (Occur::Must, mk("c"))]);
    let top: Vec<(f32, DocAddress)> = searcher.search(&q, &TopDocs::with_limit(10).order_by_score()).unwrap();
    assert!(!top.is_empty());
    for (score, addr) in top {
        assert_eq!(q.explain(&searcher, addr).unwrap().value().to_bits(), score.to_bits());
    }
}

// E2: explain on a document that does not match and lies BEFORE the first matching document.  BooleanWeight::explain and
// ConstWeight::explain call `scorer.seek(doc)` on the fresh scorer without the `scorer.doc() <= doc` test TermWeight::explain has;
// DocSet::seek documents "target has to be larger or equal to .doc()" and TermScorer::seek / SegmentPostings::seek
// debug_assert it: in a build with debug assertions the call panics instead of answering Err("... does not match").
#[test]
fn boolean_explain_of_non_matching_doc_before_first_match_is_an_error_not_a_panic() {
    let (index, text) = build();
    let searcher = index.reader().unwrap().searcher();
    let mk = |t: &str| -> Box<dyn Query> { Box::new(TermQuery::new(Term::from_field_text(text, t), IndexRecordOption::WithFreqs)) };
    // "x" only occurs in document 4; document 0 does not match
    let q = BooleanQuery::new(vec![(Occur::Must, mk("x"))]);
    let r = std::panic::catch_unwind(std::panic::AssertUnwindSafe(|| q.explain(&searcher, DocAddress::new(0, 0))));
    match &r { Ok(res) => println!("E2 boolean single clause: returned {:?}", res.as_ref().map(|e| e.value()).map_err(|e| e.to_string())), Err(_) => println!("E2 boolean single clause: PANICKED") }
    assert!(matches!(r, Ok(Err(_))), "expected Err(does not match)");
}
#[test]
fn boolean_two_must_explain_of_non_matching_doc_before_first_match() {
    let (index, text) = build();
    let searcher = index.reader().unwrap().searcher();
    let mk = |t: &str| -> Box<dyn Query> { Box::new(TermQuery::new(Term::from_field_text(text, t), IndexRecordOption::WithFreqs)) };
    let q = BooleanQuery::new(vec![(Occur::Must, mk("x")), (Occur::Must, mk("y"))]);
    let r = std::panic::catch_unwind(std::panic::AssertUnwindSafe(|| q.explain(&searcher, DocAddress::new(0, 0))));
    match &r { Ok(res) => println!("E2 boolean two must: returned {:?}", res.as_ref().map(|e| e.value()).map_err(|e| e.to_string())), Err(_) => println!("E2 boolean two must: PANICKED") }
    assert!(matches!(r, Ok(Err(_))), "expected Err(does not match)");
}
#[test]
fn const_score_explain_of_non_matching_doc_before_first_match() {
    use tantivy::query::ConstScoreQuery;
    let (index, text) = build();
    let searcher = index.reader().unwrap().searcher();
    let tq: Box<dyn Query> = Box::new(TermQuery::new(Term::from_field_text(text, "x"), IndexRecordOption::WithFreqs));
    let q = ConstScoreQuery::new(tq, 2.0);
    let r = std::panic::catch_unwind(std::panic::AssertUnwindSafe(|| q.explain(&searcher, DocAddress::new(0, 0))));
    match &r { Ok(res) => println!("E2 const score: returned {:?}", res.as_ref().map(|e| e.value()).map_err(|e| e.to_string())), Err(_) => println!("E2 const score: PANICKED") }
    assert!(matches!(r, Ok(Err(_))), "expected Err(does not match)");
}
// control: the same for a plain TermQuery (guarded) is an error
#[test]
fn term_explain_of_non_matching_doc_before_first_match_is_an_error() {
    let (index, text) = build();
    let searcher = index.reader().unwrap().searcher();
    let q = TermQuery::new(Term::from_field_text(text, "x"), IndexRecordOption::WithFreqs);
    assert!(q.explain(&searcher, DocAddress::new(0, 0)).is_err());
}
#[test]
fn phrase_explain_of_non_matching_doc_before_first_match() {
    use tantivy::query::PhraseQuery;
    let (index, text) = build();
    let searcher = index.reader().unwrap().searcher();
    let q = PhraseQuery::new(vec![Term::from_field_text(text, "x"), Term::from_field_text(text, "y")]);
    let r = std::panic::catch_unwind(std::panic::AssertUnwindSafe(|| q.explain(&searcher, DocAddress::new(0, 0))));
    match &r { Ok(res) => println!("E2 phrase: returned {:?}", res.as_ref().map(|e| e.value()).map_err(|e| e.to_string())), Err(_) => println!("E2 phrase: PANICKED") }
    assert!(matches!(r, Ok(Err(_))), "expected Err(does not match)");
}

// OBSERVATION (allowed by C12: "up to floating-point rounding of the sum for several clauses"): >= 4 Must term clauses.
// TopDocs goes through block_wand_intersection: ((s0 + s1) + s2) + s3 ...; explain / any non-pruning collector goes through
// Intersection::score: (left + right) + ((-0.0 + o0) + o1 ...).  Reports how often the last bit differs; never fails.
#[test]
fn observation_many_must_clauses_topdocs_vs_explain() {
    let mut sb = Schema::builder();
    let text = sb.add_text_field("text", TEXT);
    let index = Index::create_in_ram(sb.build());
    let mut w: IndexWriter = index.writer_with_num_threads(1, 20_000_000).unwrap();
    let words = ["a", "b", "c", "d", "e"];
    for i in 0..200u32 {
        let mut s = String::new();
        for (k, wd) in words.iter().enumerate() {
            for _ in 0..(1 + (i as usize * (k + 3)) % (k + 2)) { s.push_str(wd); s.push(' '); }
        }
        for _ in 0..(i % 17) { s.push_str("pad "); }
        if i % 3 == 0 { s.push_str("a a "); }
        if i % 5 == 0 { s = s.replace("e ", ""); }
        w.add_document(doc!(text => s)).unwrap();
    }
    w.commit().unwrap();
    let searcher = index.reader().unwrap().searcher();
    let mk = |t: &str| -> Box<dyn Query> { Box::new(TermQuery::new(Term::from_field_text(text, t), IndexRecordOption::WithFreqs)) };
    let q = BooleanQuery::new(words.iter().map(|t| (Occur::Must, mk(t))).collect());
    let top: Vec<(f32, DocAddress)> = searcher.search(&q, &TopDocs::with_limit(500).order_by_score()).unwrap();
    let mut diff = 0;
    let mut first = None;
    for (score, addr) in &top {
        let e = q.explain(&searcher, *addr).unwrap().value();
        if e.to_bits() != score.to_bits() { diff += 1; if first.is_none() { first = Some((addr.doc_id, *score, e)); } }
    }
    println!("OBS 5 must clauses: {} hits, {} with explain().value() != TopDocs score in the last bit; first (doc, topdocs, explain) = {:?}", top.len(), diff, first);
}
