//! STATUS: REPAIRED in /repo by commit "fix: long tokens of JSON fields were silently truncated in the term hashmap key"
//! (`PostingsWriter::index_text` now also drops a token when `term_prefix_len + token.text.len() > u16::MAX`; unit
//! `postings_index_text` proves `subscribe`'s precondition `term bytes <= u16::MAX` for every header length since then).  This
//! demo (which accepts "both tokens distinct terms" or "both tokens dropped") passes on the repaired tree and fails on the tree
//! before that commit (`left: (1, 0, 0)`: one merged, truncated term; neither document found).  The text below describes the
//! tree BEFORE the repair.
//! Native demonstration of the precondition that units `postings_index_text` / `postings_subscribe` expose
//! (`term bytes <= u16::MAX`, i.e. `header + MAX_TOKEN_LEN <= u16::MAX`): `PostingsWriter::index_text` keeps every token of
//! at most MAX_TOKEN_LEN = u16::MAX - 5 = 65530 bytes and subscribes it under the key `term buffer header ++ token text`, but
//! `stacker::SharedArenaHashMap::mutate_or_create` silently truncates keys to u16::MAX = 65535 bytes.  For a plain text field the
//! header is the 4-byte field id (65534 <= 65535: fine).  For a JSON field the header is field id (4) + path id (4) + type code
//! (1) = 9 bytes, so the key of a JSON string token of 65527..=65530 bytes is 65536..=65539 bytes long and loses its last
//! 1..=4 bytes: (a) two distinct tokens that differ only there are merged into ONE posting list, (b) the term that reaches the
//! term dictionary is the truncated one, so neither document can be found through the token it contains.
//! C07: "the term dictionary lists exactly the distinct terms produced by analysing the segment's documents ... terms of
//! length 0..65k sharing long prefixes".
//! Drop into `tests/` of a copy of the repository: `cargo test --offline --test demo_json_long_token_key_truncated`.
use tantivy::collector::Count;
use tantivy::query::TermQuery;
use tantivy::schema::{IndexRecordOption, JsonObjectOptions, Schema, TextFieldIndexing, TextOptions, STRING};
use tantivy::tokenizer::MAX_TOKEN_LEN;
use tantivy::{Index, IndexWriter, TantivyDocument, Term};

fn long_token(len: usize, tail: &str) -> String {
    let mut s = "a".repeat(len - tail.len());
    s.push_str(tail);
    assert_eq!(s.len(), len);
    s
}

/// (number of distinct terms in the JSON field's dictionary, hits for token 1, hits for token 2)
fn json_run(len: usize) -> (usize, usize, usize) {
    assert!(len <= MAX_TOKEN_LEN);
    let mut schema_builder = Schema::builder();
    let indexing = TextFieldIndexing::default().set_tokenizer("raw").set_index_option(IndexRecordOption::Basic);
    let json = schema_builder.add_json_field("j", JsonObjectOptions::default().set_indexing_options(indexing));
    let index = Index::create_in_ram(schema_builder.build());
    let (t1, t2) = (long_token(len, "bbbb"), long_token(len, "cccc"));
    let mut writer: IndexWriter = index.writer_with_num_threads(1, 50_000_000).unwrap();
    for t in [&t1, &t2] {
        let doc = TantivyDocument::parse_json(&index.schema(), &format!(r#"{{"j": {{"k": "{t}"}}}}"#)).unwrap();
        writer.add_document(doc).unwrap();
    }
    writer.commit().unwrap();
    let searcher = index.reader().unwrap().searcher();
    let num_terms: usize = searcher.segment_readers().iter().map(|r| r.inverted_index(json).unwrap().terms().num_terms()).sum();
    let hits = |t: &str| {
        let mut term = Term::from_field_json_path(json, "k", false);
        term.append_type_and_str(t);
        searcher.search(&TermQuery::new(term, IndexRecordOption::Basic), &Count).unwrap()
    };
    (num_terms, hits(&t1), hits(&t2))
}

fn text_run(len: usize) -> (usize, usize, usize) {
    let mut schema_builder = Schema::builder();
    let text = schema_builder.add_text_field("t", TextOptions::from(STRING));
    let index = Index::create_in_ram(schema_builder.build());
    let (t1, t2) = (long_token(len, "bbbb"), long_token(len, "cccc"));
    let mut writer: IndexWriter = index.writer_with_num_threads(1, 50_000_000).unwrap();
    for t in [&t1, &t2] {
        let mut doc = TantivyDocument::default();
        doc.add_text(text, t);
        writer.add_document(doc).unwrap();
    }
    writer.commit().unwrap();
    let searcher = index.reader().unwrap().searcher();
    let num_terms: usize = searcher.segment_readers().iter().map(|r| r.inverted_index(text).unwrap().terms().num_terms()).sum();
    let hits = |t: &str| searcher.search(&TermQuery::new(Term::from_field_text(text, t), IndexRecordOption::Basic), &Count).unwrap();
    (num_terms, hits(&t1), hits(&t2))
}

/// control: a plain text field keeps two distinct MAX_TOKEN_LEN tokens apart (key = 4 + 65530 bytes)
#[test]
fn text_field_max_len_tokens_are_distinct_terms() {
    assert_eq!(text_run(MAX_TOKEN_LEN), (2, 1, 1));
}

/// control: JSON string tokens whose key just fits (9 + 65526 = 65535 bytes)
#[test]
fn json_field_tokens_of_65526_bytes_are_distinct_terms() {
    assert_eq!(json_run(MAX_TOKEN_LEN - 4), (2, 1, 1));
}

/// two documents, two distinct tokens of MAX_TOKEN_LEN bytes (accepted by index_text: not "exceeding MAX_TOKEN_LEN"):
/// the dictionary must hold two terms and each token must find its document
#[test]
fn json_field_max_len_tokens_are_distinct_terms() {
    let r = json_run(MAX_TOKEN_LEN);
    // either both tokens are indexed as two distinct terms, or both are dropped as "too long" (the documented fate of
    // over-long tokens); never one merged / truncated term that no query can reach
    assert!(r == (2, 1, 1) || r == (0, 0, 0), "{r:?}");
}

/// a single byte over the key limit is enough (9 + 65527 = 65536)
#[test]
fn json_field_tokens_of_65527_bytes_are_distinct_terms() {
    let r = json_run(MAX_TOKEN_LEN - 3);
    assert!(r == (2, 1, 1) || r == (0, 0, 0), "{r:?}");
}
