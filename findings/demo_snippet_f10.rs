// F10 (C19, unit fragment_search): "every highlight lies inside its fragment; snippet generation never panics".
// Before the fix commit "fix: snippet fragment could end before one of its highlights", FragmentCandidate::try_add_token
// overwrote stop_offset with the offset_to of the LAST token it saw, so a token stream whose end offsets decrease
// (n-grams followed by a filter that drops the trailing tokens) gave a fragment shorter than one of its highlights and
// Snippet::to_html sliced the fragment out of range.
// Ordinary integration test, public API only: copy into tests/ of a copy of the tree,
//   cargo test --offline --test demo_snippet_f10
// Recorded 2026-09-25: tree before the fix: both FAIL --
//   f10_highlight_lies_inside_fragment: highlight 0..3 outside fragment "ab"
//   f10_to_html_does_not_panic: panicked at src/snippet/mod.rs (to_html, `&self.fragment[item.clone()]`): end byte index 3 is out of bounds of `ab`
// /repo after the fix: both ok.
use std::collections::BTreeMap;

use tantivy::schema::Field;
use tantivy::snippet::SnippetGenerator;
use tantivy::tokenizer::{NgramTokenizer, StopWordFilter, TextAnalyzer};

fn generator() -> SnippetGenerator {
    // tokens of "abc": (0,1) (0,2) (0,3) (1,2) [ (1,3) "bc" and (2,3) "c" removed ] -> the last token ends at 2
    let analyzer = TextAnalyzer::builder(NgramTokenizer::all_ngrams(1, 3).unwrap())
        .filter(StopWordFilter::remove(vec!["c".to_string(), "bc".to_string()]))
        .build();
    let mut terms = BTreeMap::new();
    terms.insert("abc".to_string(), 1.0f32);
    SnippetGenerator::new(terms, analyzer, Field::from_field_id(0), 150)
}

#[test]
fn f10_highlight_lies_inside_fragment() {
    let snippet = generator().snippet("abc");
    println!("fragment={:?} highlighted={:?}", snippet.fragment(), snippet.highlighted());
    assert!(!snippet.highlighted().is_empty());
    for r in snippet.highlighted() {
        assert!(
            r.start <= r.end && r.end <= snippet.fragment().len(),
            "highlight {:?} outside fragment {:?}",
            r,
            snippet.fragment()
        );
    }
}

#[test]
fn f10_to_html_does_not_panic() {
    let html = generator().snippet("abc").to_html();
    assert_eq!(html, "<b>abc</b>");
}
