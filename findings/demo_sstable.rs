//! F3 (C15): drop into sstable/tests/ ; `cargo test --offline -p tantivy-sstable --test demo_sstable`
use tantivy_sstable::{Dictionary, VoidSSTable};

/// building must reject (never silently accept) keys that are not strictly increasing: "" twice.
#[test]
fn f3_duplicate_empty_key_is_rejected() {
    let r = std::panic::catch_unwind(|| {
        let mut builder = Dictionary::<VoidSSTable>::builder(Vec::new()).unwrap();
        builder.insert(b"", &()).unwrap();
        builder.insert(b"", &()).unwrap();
        builder.finish().unwrap()
    });
    assert!(r.is_err(), "a duplicate empty key was silently accepted");
}
