// STATUS: FIXED in /repo by commit "fix: range queries on a fast bool field failed with InvalidArgument" (as_bool decoder arm + ColumnType::Bool in the
// white list of FastFieldRangeWeight::scorer's numeric branch); on the repaired tree all 4 tests pass (run by main).  The text below describes the tree BEFORE the fix.
// Candidate finding (C03 "range queries on fast fields for every column type"; unit fast_field_range_scorer) + two native controls.
//
// (A) FINDING: a RangeQuery on a BOOL field that is `INDEXED | FAST` always fails.  RangeQuery::weight picks FastFieldRangeWeight because
//     `is_type_valid_for_fastfield_range_query(Type::Bool) == true`; FastFieldRangeWeight::scorer sends the field to its numeric branch
//     (`maps_to_u64_fastfield(Type::Bool) == true`), whose term decoder tries as_u64 / as_i64 / as_f64 / as_date only -- a bool term answers
//     None to all four -- and whose column white list [U64, I64, F64, DateTime] does not contain ColumnType::Bool either.  Result:
//       Err(InvalidArgument("Expected term with u64, i64, f64 or date, but got Term(field=0, type=Bool, true)"))
//     while the same query on an INDEXED-only bool field (inverted-index path) returns the 2 / 3 matching documents (test a_control_*).
// (B) control: a range covering every value of an OPTIONAL column does not match the documents without a value (the AllScorer shortcut of
//     search_on_u64_ff requires Cardinality::Full; proved in the unit, mutant ff_all_without_full).  PASSES.
// (C) control: ExistsQuery with json_subpaths on `j.a.b` matches `j.a.b` and `j.a.b.x` but neither the sibling `j.a.bc` nor the key "b.c"
//     (sub-path prefix = name ++ 0x01).  PASSES.
//
// Ordinary integration test, public API only: copy into tests/ of a copy of the tree,
//   cargo test --offline --test demo_fast_field_range_dispatch -- --nocapture --test-threads=1
// Recorded 2026-09-26 on the unchanged /repo:
//   a_bool_range_on_fast_field ... FAILED   Err(InvalidArgument("Expected term with u64, i64, f64 or date, but got Term(field=0, type=Bool, true)"))
//   a_control_bool_range_on_indexed_only_field ... ok
//   b_full_range_on_optional_column ... ok
//   c_exists_subpaths_sibling_prefix ... ok   (j.a.b/false: [2]; j.a.b/true: [0, 2]; j.a/true: [0, 1, 2, 3]; j/true: [0, 1, 2, 3, 4])
use std::ops::Bound;

use tantivy::collector::{Count, DocSetCollector};
use tantivy::query::{ExistsQuery, RangeQuery};
use tantivy::schema::{JsonObjectOptions, Schema, FAST, INDEXED, STRING};
use tantivy::{doc, Index, IndexWriter, Term};

// (A) range query on a BOOL field: with the field only INDEXED the inverted index answers; with FAST the
// fast-field weight is chosen (is_type_valid_for_fastfield_range_query(Bool) == true) and FastFieldRangeWeight::scorer
// has no decoding for a bool term (as_u64 / as_i64 / as_f64 / as_date are all None) and no Bool in its column white list.
fn bool_index(fast: bool) -> (Index, tantivy::schema::Field) {
    let mut sb = Schema::builder();
    let flag = if fast { sb.add_bool_field("flag", INDEXED | FAST) } else { sb.add_bool_field("flag", INDEXED) };
    let index = Index::create_in_ram(sb.build());
    let mut w: IndexWriter = index.writer_with_num_threads(1, 20_000_000).unwrap();
    w.add_document(doc!(flag => false)).unwrap();
    w.add_document(doc!(flag => true)).unwrap();
    w.add_document(doc!(flag => true)).unwrap();
    w.commit().unwrap();
    (index, flag)
}

#[test]
fn a_control_bool_range_on_indexed_only_field() {
    let (index, flag) = bool_index(false);
    let searcher = index.reader().unwrap().searcher();
    let q = RangeQuery::new(Bound::Included(Term::from_field_bool(flag, true)), Bound::Unbounded);
    assert_eq!(searcher.search(&q, &Count).unwrap(), 2);
    let q = RangeQuery::new(Bound::Included(Term::from_field_bool(flag, false)), Bound::Included(Term::from_field_bool(flag, true)));
    assert_eq!(searcher.search(&q, &Count).unwrap(), 3);
}

#[test]
fn a_bool_range_on_fast_field() {
    let (index, flag) = bool_index(true);
    let searcher = index.reader().unwrap().searcher();
    let q = RangeQuery::new(Bound::Included(Term::from_field_bool(flag, true)), Bound::Unbounded);
    let res = searcher.search(&q, &Count);
    println!("bool range [true, *) on a FAST bool field: {res:?}");
    assert_eq!(res.unwrap(), 2);
}

// (B) a range that covers every value of an OPTIONAL column must not match the documents without a value
#[test]
fn b_full_range_on_optional_column() {
    let mut sb = Schema::builder();
    let n = sb.add_u64_field("n", FAST);
    let t = sb.add_text_field("t", STRING);
    let index = Index::create_in_ram(sb.build());
    let mut w: IndexWriter = index.writer_with_num_threads(1, 20_000_000).unwrap();
    w.add_document(doc!(t => "a", n => 5u64)).unwrap();
    w.add_document(doc!(t => "b")).unwrap();
    w.add_document(doc!(t => "c", n => 9u64)).unwrap();
    w.commit().unwrap();
    let searcher = index.reader().unwrap().searcher();
    let q = RangeQuery::new(Bound::Included(Term::from_field_u64(n, 0)), Bound::Included(Term::from_field_u64(n, 100)));
    assert_eq!(searcher.search(&q, &Count).unwrap(), 2);
    let q = RangeQuery::new(Bound::Included(Term::from_field_u64(n, 0)), Bound::Unbounded);
    assert_eq!(searcher.search(&q, &Count).unwrap(), 2);
    let q = RangeQuery::new(Bound::Unbounded, Bound::Included(Term::from_field_u64(n, u64::MAX)));
    assert_eq!(searcher.search(&q, &Count).unwrap(), 2);
}

// (C) exists with json_subpaths: a sibling path sharing a textual prefix (`a.b` vs `a.bc`) is not a sub-path
#[test]
fn c_exists_subpaths_sibling_prefix() {
    let mut sb = Schema::builder();
    let j = sb.add_json_field("j", JsonObjectOptions::default().set_fast(None));
    let index = Index::create_in_ram(sb.build());
    let mut w: IndexWriter = index.writer_with_num_threads(1, 20_000_000).unwrap();
    w.add_document(doc!(j => serde_json::json!({"a": {"b": {"x": 1}}}))).unwrap(); // doc 0: j.a.b.x
    w.add_document(doc!(j => serde_json::json!({"a": {"bc": 2}}))).unwrap(); // doc 1: j.a.bc
    w.add_document(doc!(j => serde_json::json!({"a": {"b": 3}}))).unwrap(); // doc 2: j.a.b itself
    w.add_document(doc!(j => serde_json::json!({"a": {"b.c": 4}}))).unwrap(); // doc 3: key with a dot (expand_dots off)
    w.add_document(doc!(j => serde_json::json!({"ab": 5}))).unwrap(); // doc 4: j.ab
    w.commit().unwrap();
    let searcher = index.reader().unwrap().searcher();
    let ids = |q: &ExistsQuery| {
        let mut v: Vec<u32> = searcher.search(q, &DocSetCollector).unwrap().into_iter().map(|a| a.doc_id).collect();
        v.sort();
        v
    };
    println!("j.a.b  subpaths=false: {:?}", ids(&ExistsQuery::new("j.a.b".to_string(), false)));
    println!("j.a.b  subpaths=true : {:?}", ids(&ExistsQuery::new("j.a.b".to_string(), true)));
    println!("j.a    subpaths=true : {:?}", ids(&ExistsQuery::new("j.a".to_string(), true)));
    println!("j      subpaths=true : {:?}", ids(&ExistsQuery::new("j".to_string(), true)));
    assert_eq!(ids(&ExistsQuery::new("j.a.b".to_string(), false)), vec![2]);
    assert_eq!(ids(&ExistsQuery::new("j.a.b".to_string(), true)), vec![0, 2]);
    assert_eq!(ids(&ExistsQuery::new("j.a".to_string(), true)), vec![0, 1, 2, 3]);
    assert_eq!(ids(&ExistsQuery::new("j".to_string(), true)), vec![0, 1, 2, 3, 4]);
}
