//! Probe (unit `multivalue_index`, C08): `ColumnIndex::has_value(doc)` for a doc id at or beyond the number of documents.
//! "Returns true if and only if there are at least one value associated to the row": a doc >= num_docs owns no row.
//! Empty / Multivalued answer `false`; `value_row_ids` answers the empty range for every variant; the Optional arm
//! forwards to `OptionalIndex::contains`, which indexes `block_metas[doc / 65536]` unchecked.
use tantivy_columnar::column_index::OptionalIndex;
use tantivy_columnar::ColumnIndex;

#[test]
fn optional_has_value_same_block_beyond_num_docs_is_false() {
    let idx = ColumnIndex::Optional(OptionalIndex::for_test(10, &[1, 3]));
    assert!(idx.has_value(1));
    assert!(!idx.has_value(2));
    assert!(!idx.has_value(10)); // doc == num_docs, same block: false
    assert!(!idx.has_value(11));
    assert!(idx.value_row_ids(70_000).is_empty()); // value_row_ids is total
}

#[test]
fn optional_has_value_other_block_beyond_num_docs() {
    let idx = ColumnIndex::Optional(OptionalIndex::for_test(10, &[1, 3]));
    // expected by the doc comment: false (the doc owns no row).  Observed: index out of bounds panic.
    assert!(!idx.has_value(70_000));
}

#[test]
fn empty_has_value_beyond_num_docs_is_false() {
    assert!(!ColumnIndex::Empty { num_docs: 10 }.has_value(70_000));
}
