//! Native demonstration for the assumption unit `merge_doc_id_mapping` lists for IndexMerger::segment_has_live_nulls
//! ("a column whose cardinality is not Optional has a value for every document"): if one document carries TWO values for the
//! sort field, the segment's column is Multivalued, a document without a value in that segment is not seen as a live NULL, the
//! merger takes the 'disjunct ranges, just stack' shortcut and the NULL document lands in the middle of the merged segment.
//! Drop into `tests/` of a copy of the repository: `cargo test --offline --test demo_sorted_merge_multivalued_nulls -- --nocapture`.
use tantivy::indexer::NoMergePolicy;
use tantivy::schema::{Schema, FAST};
use tantivy::{doc, Index, IndexSettings, IndexSortByField, IndexWriter, Order, TantivyDocument};

fn merged_first_values(two_values_in_one_doc: bool) -> Vec<Option<u64>> {
    let mut schema_builder = Schema::builder();
    let v = schema_builder.add_u64_field("v", FAST);
    let schema = schema_builder.build();
    let settings = IndexSettings {
        sort_by_field: Some(IndexSortByField { field: "v".to_string(), order: Order::Asc }),
        ..Default::default()
    };
    let index = Index::builder().schema(schema).settings(settings).create_in_ram().unwrap();
    let mut writer: IndexWriter = index.writer_with_num_threads(1, 20_000_000).unwrap();
    writer.set_merge_policy(Box::new(NoMergePolicy));
    // segment B: one document, value 0
    writer.add_document(doc!(v => 0u64)).unwrap();
    writer.commit().unwrap();
    // segment A: {5 (,6)}, {no value}, {7}
    let mut d = TantivyDocument::default();
    d.add_u64(v, 5);
    if two_values_in_one_doc {
        d.add_u64(v, 6);
    }
    writer.add_document(d).unwrap();
    writer.add_document(TantivyDocument::default()).unwrap();
    writer.add_document(doc!(v => 7u64)).unwrap();
    writer.commit().unwrap();
    let segment_ids = index.searchable_segment_ids().unwrap();
    assert_eq!(segment_ids.len(), 2);
    writer.merge(&segment_ids).wait().unwrap();
    writer.wait_merging_threads().unwrap();
    let reader = index.reader().unwrap();
    let searcher = reader.searcher();
    assert_eq!(searcher.segment_readers().len(), 1);
    let segment_reader = searcher.segment_reader(0);
    let (column, _) = segment_reader.fast_fields().u64_lenient("v").unwrap().unwrap();
    (0..segment_reader.max_doc()).map(|doc| column.first(doc)).collect()
}

fn nulls_first_then_ascending(vals: &[Option<u64>]) -> bool {
    vals.windows(2).all(|w| w[0] <= w[1])
}

#[test]
fn single_valued_sort_field_nulls_first() {
    let vals = merged_first_values(false);
    println!("single-valued: merged order of first values = {vals:?}");
    assert!(nulls_first_then_ascending(&vals));
}

#[test]
fn multivalued_doc_hides_live_null_from_the_stack_shortcut() {
    let vals = merged_first_values(true);
    println!("one doc with two values: merged order of first values = {vals:?}");
    assert!(nulls_first_then_ascending(&vals), "document without a value is not first in an ascending sorted index: {vals:?}");
}
