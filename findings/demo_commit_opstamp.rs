//! C02: "The opstamp returned by commit is larger than that of every operation it includes and is what the writer and the
//! index metadata report as the last commit."
use tantivy::schema::{Schema, TEXT};
use tantivy::{doc, Index, IndexWriter};

#[test]
fn writer_reports_the_last_commit_opstamp() {
    let mut schema_builder = Schema::builder();
    let text = schema_builder.add_text_field("text", TEXT);
    let index = Index::create_in_ram(schema_builder.build());
    let mut writer: IndexWriter = index.writer(15_000_000).unwrap();
    let op1 = writer.add_document(doc!(text => "a")).unwrap();
    let op2 = writer.add_document(doc!(text => "b")).unwrap();
    let commit_opstamp = writer.commit().unwrap();
    assert!(commit_opstamp > op1 && commit_opstamp > op2);
    assert_eq!(index.load_metas().unwrap().opstamp, commit_opstamp, "index metadata");
    assert_eq!(writer.commit_opstamp(), commit_opstamp, "IndexWriter::commit_opstamp() after commit");
}

#[test]
fn opstamps_stay_increasing_across_delete_all() {
    let mut schema_builder = Schema::builder();
    let text = schema_builder.add_text_field("text", TEXT);
    let index = Index::create_in_ram(schema_builder.build());
    let mut writer: IndexWriter = index.writer(15_000_000).unwrap();
    for _ in 0..5 { writer.add_document(doc!(text => "a")).unwrap(); }
    let c1 = writer.commit().unwrap();
    writer.delete_all_documents().unwrap();
    let op = writer.add_document(doc!(text => "b")).unwrap();
    let c2 = writer.commit().unwrap();
    assert!(op > c1, "operation after a commit got opstamp {op} <= the commit's opstamp {c1}");
    assert!(c2 > c1, "second commit opstamp {c2} is not larger than the first {c1}");
}
