// Candidate finding (C06 "every sort key type and order, missing values"; units sort_key_fast_value / sort_key_string_bytes).
//
// Where the sort key of a document comes from differs between the sort-key computers when a SEGMENT has no column of the requested name:
//   * SortByString / SortByBytes::segment_sort_key_computer keep `Option<StrColumn>` = None and give every document of that segment the key
//     None ("Documents that do not have this value are still considered. Their sort key will simply be None", rustdoc of all sort computers);
//   * SortByStaticFastValue and SortByErasedType::segment_sort_key_computer turn `u64_lenient(name) == Ok(None)` into
//     Err(FastFieldNotAvailableError), which `Collector::for_segment` passes on: the WHOLE search fails.
// For a field declared in the schema every segment has a (possibly empty) column, so SortByStaticFastValue (whose check_schema demands a schema
// field) is not affected -- tests numeric_/string_/erased_fast_field_absent_from_one_segment below PASS.  SortByErasedType has no check_schema and
// is the computer meant for "sort orders not known until runtime", i.e. also JSON paths: with a JSON path that occurs in one segment but not in
// another, `TopDocs::order_by((SortByErasedType::for_field("attr.rating"), Order::Desc))` returns
//   Err(SchemaError("Fast field not available: '\"attr.rating\"'"))
// although every document matches and `order_by_string_fast_field("attr.city", ..)` on the same index returns all three documents with None keys.
//
// Ordinary integration test, public API only: copy into tests/ of a copy of the tree,
//   cargo test --offline --test demo_topdocs_erased_json_path_missing_in_segment -- --nocapture --test-threads=1
// Recorded 2026-09-26 on the unchanged /repo:
//   control_missing_value_in_segment_with_column_is_none ... ok
//   numeric_fast_field_absent_from_one_segment ... ok      (Some(5), None, None)
//   string_fast_field_absent_from_one_segment ... ok       (Some("paris"), None, None)
//   erased_fast_field_absent_from_one_segment ... ok       (U64(5), Null, Null)
//   string_json_path_absent_from_one_segment ... ok        (Some("paris"), None, None)
//   erased_json_path_absent_from_one_segment ... FAILED    Err(SchemaError("Fast field not available: '\"attr.rating\"'"))
use tantivy::collector::sort_key::SortByErasedType;
use tantivy::collector::TopDocs;
use tantivy::query::AllQuery;
use tantivy::schema::{OwnedValue, Schema, FAST, STRING};
use tantivy::{doc, DocAddress, Index, IndexWriter, Order};

fn index_two_segments() -> Index {
    let mut sb = Schema::builder();
    let rating = sb.add_u64_field("rating", FAST);
    let city = sb.add_text_field("city", STRING | FAST);
    let title = sb.add_text_field("title", STRING);
    let index = Index::create_in_ram(sb.build());
    let mut w: IndexWriter = index.writer_with_num_threads(1, 20_000_000).unwrap();
    w.set_merge_policy(Box::new(tantivy::merge_policy::NoMergePolicy));
    // segment 0: two documents, one with a rating / city, one without
    w.add_document(doc!(title => "a", rating => 5u64, city => "paris")).unwrap();
    w.add_document(doc!(title => "b")).unwrap();
    w.commit().unwrap();
    // segment 1: no document has a rating / city
    w.add_document(doc!(title => "c")).unwrap();
    w.commit().unwrap();
    index
}

// control: a document without value in a segment that HAS the column gets key None (documented behaviour)
#[test]
fn control_missing_value_in_segment_with_column_is_none() {
    let mut sb = Schema::builder();
    let rating = sb.add_u64_field("rating", FAST);
    let title = sb.add_text_field("title", STRING);
    let index = Index::create_in_ram(sb.build());
    let mut w: IndexWriter = index.writer_with_num_threads(1, 20_000_000).unwrap();
    w.add_document(doc!(title => "a", rating => 5u64)).unwrap();
    w.add_document(doc!(title => "b")).unwrap();
    w.commit().unwrap();
    let searcher = index.reader().unwrap().searcher();
    let hits: Vec<(Option<u64>, DocAddress)> = searcher
        .search(&AllQuery, &TopDocs::with_limit(10).order_by_fast_field::<u64>("rating", Order::Desc))
        .unwrap();
    assert_eq!(hits, vec![(Some(5), DocAddress::new(0, 0)), (None, DocAddress::new(0, 1))]);
}

#[test]
fn numeric_fast_field_absent_from_one_segment() {
    let index = index_two_segments();
    let searcher = index.reader().unwrap().searcher();
    assert_eq!(searcher.segment_readers().len(), 2);
    let res = searcher.search(&AllQuery, &TopDocs::with_limit(10).order_by_fast_field::<u64>("rating", Order::Desc));
    println!("order_by_fast_field::<u64>(rating, Desc): {res:?}");
    let hits: Vec<(Option<u64>, DocAddress)> = res.expect("all three documents match; documents without a value have key None");
    assert_eq!(hits.len(), 3);
    assert_eq!(hits[0].0, Some(5));
    assert_eq!(hits[1].0, None);
    assert_eq!(hits[2].0, None);
}

#[test]
fn string_fast_field_absent_from_one_segment() {
    let index = index_two_segments();
    let searcher = index.reader().unwrap().searcher();
    let res = searcher.search(&AllQuery, &TopDocs::with_limit(10).order_by_string_fast_field("city", Order::Desc));
    println!("order_by_string_fast_field(city, Desc): {res:?}");
    let hits = res.expect("string variant");
    assert_eq!(hits.len(), 3);
    assert_eq!(hits[0].0, Some("paris".to_string()));
}

#[test]
fn erased_fast_field_absent_from_one_segment() {
    let index = index_two_segments();
    let searcher = index.reader().unwrap().searcher();
    let res = searcher.search(&AllQuery, &TopDocs::with_limit(10).order_by((SortByErasedType::for_field("rating"), Order::Desc)));
    println!("order_by(SortByErasedType(rating), Desc): {res:?}");
    let hits: Vec<(OwnedValue, DocAddress)> = res.expect("erased variant");
    assert_eq!(hits.len(), 3);
}

fn json_index_two_segments() -> Index {
    let mut sb = Schema::builder();
    let attr = sb.add_json_field("attr", FAST);
    let title = sb.add_text_field("title", STRING);
    let index = Index::create_in_ram(sb.build());
    let mut w: IndexWriter = index.writer_with_num_threads(1, 20_000_000).unwrap();
    w.set_merge_policy(Box::new(tantivy::merge_policy::NoMergePolicy));
    w.add_document(doc!(title => "a", attr => serde_json::json!({"rating": 5u64, "city": "paris"}))).unwrap();
    w.add_document(doc!(title => "b")).unwrap();
    w.commit().unwrap();
    w.add_document(doc!(title => "c", attr => serde_json::json!({"other": 1u64}))).unwrap();
    w.commit().unwrap();
    index
}

#[test]
fn erased_json_path_absent_from_one_segment() {
    let index = json_index_two_segments();
    let searcher = index.reader().unwrap().searcher();
    let res = searcher.search(&AllQuery, &TopDocs::with_limit(10).order_by((SortByErasedType::for_field("attr.rating"), Order::Desc)));
    println!("order_by(SortByErasedType(attr.rating), Desc): {res:?}");
    let hits: Vec<(OwnedValue, DocAddress)> = res.expect("erased variant, json path");
    assert_eq!(hits.len(), 3);
}

#[test]
fn string_json_path_absent_from_one_segment() {
    let index = json_index_two_segments();
    let searcher = index.reader().unwrap().searcher();
    let res = searcher.search(&AllQuery, &TopDocs::with_limit(10).order_by_string_fast_field("attr.city", Order::Desc));
    println!("order_by_string_fast_field(attr.city, Desc): {res:?}");
    let hits = res.expect("string variant, json path");
    assert_eq!(hits.len(), 3);
}
