// STATUS: REPAIRED in /repo by commit "fix: top_hits aggregation broke ties differently depending on the segment layout"; main ran this demo on the repaired tree: all tests pass.
// The "Recorded" lines below are from the tree BEFORE the fix; unit top_hits_topn now proves the repaired code without the restriction
// (mutants final_drain_unbounded / merge_into_old_computer restore the defects and are caught).
// Finding (C14, unit top_hits_topn): the top_hits aggregation depends on how the documents are distributed over segments.
//
// TopHitsTopNComputer::merge_fruits (src/aggregation/metric/top_hits.rs) pushes the entries of the other intermediate result into its own
// TopNComputer.  TopNComputer (src/collector/top_score_collector.rs) resolves ties on the sort key by document address ONLY IF entries
// are pushed in ascending address order ("NOTE: Items must be `push`ed to the TopNComputer in ascending DocId|DocAddress order"): `push`
// drops every entry whose key does not strictly beat the threshold.  The aggregation merge does not honour that:
// aggregation::collector::merge_fruits pops the LAST segment's fruit and merges the fruits of segments 0, 1, .. into it, and
// IntermediateAggregationResults::merge_fruits is public and is called in arbitrary order by distributed users.
// Same defect class as F20 (merge_top_k, fixed); the Verus unit top_hits_topn proves "merge = best N of the union" only for merges in
// which the incoming entries have larger addresses than everything pushed before (or in which nothing is dropped).
//
// Ordinary integration test, public API only: copy into tests/ of a copy of the tree,
//   cargo test --offline --test demo_top_hits_merge_ties -- --nocapture
// Recorded 2026-09-26 on /repo:
//   top_hits_one_segment_is_the_reference ... ok            ({"hits":[{"docvalue_fields":{"id":[0]},"sort":[1]},{"docvalue_fields":{"id":[3]},"sort":[5]}]})
//   top_hits_does_not_depend_on_segmentation ... FAILED     three segments: ids [0, 4]; one segment: ids [0, 3]
// Trace (top_n = 2, capacity 4; merge order = last segment first): self = [(5,s2d0), (5,s2d1)]; + segment 0: [.., (1,s0d0), (9,s0d1)] (full);
// + (9,s1d0): truncate keeps (1,s0d0), (5,s2d0), threshold := 5 (key of (5,s2d1)), then appends; + (5,s1d1): key 5 does not beat the threshold
// => dropped, although (5,s1d1) precedes the kept (5,s2d0) by address.
use serde_json::json;
use tantivy::aggregation::agg_req::Aggregations;
use tantivy::aggregation::AggregationCollector;
use tantivy::query::TermQuery;
use tantivy::schema::{IndexRecordOption, Schema, FAST, STRING};
use tantivy::{doc, Index, IndexWriter, Term};

// (sort value v, id) per segment; top_hits size 2, sort v ascending: the two best documents are (1, id 0) and the FIRST document
// with v = 5 in index order, which is id 3.
const SEGMENTS: [&[(u64, u64)]; 3] = [&[(1, 0), (9, 1)], &[(9, 2), (5, 3)], &[(5, 4), (5, 5)]];
// Searcher lists segments by decreasing max_doc: non-matching padding documents keep the segments in the order of SEGMENTS.
const PADDING: [usize; 3] = [20, 10, 0];

fn top_hits_ids(one_segment: bool) -> Vec<u64> {
    let mut sb = Schema::builder();
    let v = sb.add_u64_field("v", FAST);
    let id = sb.add_u64_field("id", FAST);
    let m = sb.add_text_field("m", STRING);
    let index = Index::create_in_ram(sb.build());
    let mut w: IndexWriter = index.writer_with_num_threads(1, 20_000_000).unwrap();
    w.set_merge_policy(Box::new(tantivy::merge_policy::NoMergePolicy));
    for (seg, pad) in SEGMENTS.iter().zip(PADDING) {
        for (val, i) in seg.iter() {
            w.add_document(doc!(v => *val, id => *i, m => "yes")).unwrap();
        }
        if !one_segment {
            for _ in 0..pad {
                w.add_document(doc!(v => 0u64, id => 999u64, m => "no")).unwrap();
            }
            w.commit().unwrap();
        }
    }
    w.commit().unwrap();
    let searcher = index.reader().unwrap().searcher();
    let sizes: Vec<u32> = searcher.segment_readers().iter().map(|sr| sr.max_doc()).collect();
    if one_segment {
        assert_eq!(sizes, [6]);
    } else {
        assert_eq!(sizes, [22, 12, 2]);
    }
    let aggs: Aggregations = serde_json::from_value(json!({
        "hits": { "top_hits": { "size": 2, "sort": [ { "v": "asc" } ], "docvalue_fields": ["id"] } }
    }))
    .unwrap();
    let collector = AggregationCollector::from_aggs(aggs, Default::default());
    let query = TermQuery::new(Term::from_field_text(m, "yes"), IndexRecordOption::Basic);
    let res = serde_json::to_value(searcher.search(&query, &collector).unwrap()).unwrap();
    println!("one_segment={one_segment}: {}", res["hits"]);
    res["hits"]["hits"]
        .as_array()
        .unwrap()
        .iter()
        .map(|h| h["docvalue_fields"]["id"][0].as_u64().unwrap())
        .collect()
}

#[test]
fn top_hits_one_segment_is_the_reference() {
    assert_eq!(top_hits_ids(true), vec![0, 3]);
}

#[test]
fn top_hits_does_not_depend_on_segmentation() {
    assert_eq!(top_hits_ids(false), top_hits_ids(true), "same documents in the same order, three segments instead of one");
}
