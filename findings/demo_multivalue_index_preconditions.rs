// Probes for unit `multivalue_index` (C08) that need crate-private items (legacy `MultiValueIndexV1` cannot be produced by the
// public writer): APPEND this file to `columnar/src/column_index/multivalued_index.rs` of a copy of the repository and run
// `cargo test --offline -p tantivy-columnar --lib verif_mv_probe`.
// Each test documents a PRECONDITION that the verified contracts had to assume (none is reachable from the callers in the
// repository: `RangeDocSet::fetch_horizon` clamps the doc range to num_docs, files written by tantivy always hold >= 1 offset).
#[cfg(test)]
mod verif_mv_probe {
    use std::sync::Arc;

    use super::*;
    use crate::column_index::ColumnIndex;
    use crate::column_values::VecColumn;

    fn v1(offsets: Vec<u32>) -> MultiValueIndexV1 {
        let col: Arc<dyn crate::ColumnValues<RowId>> = Arc::new(VecColumn::from(offsets));
        MultiValueIndexV1 { start_index_column: col }
    }

    // st = [0, 10, 12, 15, 22, 23]: 5 docs, 23 rows
    const ST: [u32; 6] = [0, 10, 12, 15, 22, 23];

    /// V2 and Optional clamp a doc range that reaches beyond num_docs (rank saturates) ...
    #[test]
    fn v2_docid_range_beyond_num_docs_is_clamped() {
        let v2 = ColumnIndex::Multivalued(MultiValueIndex::for_test(&ST));
        assert_eq!(v2.docid_range_to_rowids(3..5), 15..23);
        assert_eq!(v2.docid_range_to_rowids(3..9), 15..23);
        assert_eq!(v2.docid_range_to_rowids(7..9), 23..23);
    }

    /// ... the legacy V1 arm reads start_index_column[end] unchecked (precondition of the contract: end <= num_docs).
    #[test]
    #[should_panic]
    fn v1_docid_range_beyond_num_docs_reads_out_of_range() {
        let v1 = ColumnIndex::Multivalued(MultiValueIndex::MultiValueIndexV1(v1(ST.to_vec())));
        assert_eq!(v1.docid_range_to_rowids(3..5), 15..23);
        let _ = v1.docid_range_to_rowids(3..9);
    }

    /// V1 guards select_batch_in_place with `assert!(start_offset(docid_start) <= ranks[0])`; the V2 guard compares the RANK of
    /// docid_start in the optional index with a VALUE ROW (`cur_pos_in_idx <= ranks[0]`), which always holds for legal inputs
    /// (compact[k] >= k) and does not detect a row that precedes docid_start: V1 panics, V2 returns the wrong doc.
    #[test]
    fn v2_guard_does_not_detect_row_before_docid_start() {
        let v2 = MultiValueIndex::for_test(&ST);
        let mut ranks = vec![5u32]; // row 5 belongs to doc 0, i.e. it precedes docid_start = 2 (rows 12..15)
        v2.select_batch_in_place(2, &mut ranks);
        assert_eq!(ranks, vec![2]); // not the owner (doc 0)
        let v1 = MultiValueIndex::MultiValueIndexV1(v1(ST.to_vec()));
        let r = std::panic::catch_unwind(std::panic::AssertUnwindSafe(|| {
            let mut ranks = vec![5u32];
            v1.select_batch_in_place(2, &mut ranks);
        }));
        assert!(r.is_err()); // V1: assertion failed
    }

    /// legal inputs: docid_start without values, duplicates, last doc
    #[test]
    fn select_batch_legal_inputs_agree() {
        let st = [0u32, 0, 3, 3, 3, 7, 7]; // docs 1 and 4 have values
        let v2 = MultiValueIndex::for_test(&st);
        let v1 = MultiValueIndex::MultiValueIndexV1(v1(st.to_vec()));
        for start in 0..=4u32 {
            let first_row = st[start as usize];
            let rows: Vec<u32> = (first_row..7).collect();
            let mut a = rows.clone();
            let mut b = rows.clone();
            v1.select_batch_in_place(start, &mut a);
            v2.select_batch_in_place(start, &mut b);
            let expect: Vec<u32> = if first_row < 3 { vec![1, 4] } else { vec![4] };
            assert_eq!(a, expect);
            assert_eq!(b, expect);
        }
    }

    /// a V1 start-offset column without any entry (never written by tantivy: 0 docs are stored as [0]): num_docs() underflows
    #[test]
    #[should_panic(expected = "subtract with overflow")]
    fn v1_empty_offset_column_num_docs_underflows() {
        let v1 = MultiValueIndex::MultiValueIndexV1(v1(vec![]));
        let _ = v1.num_docs();
    }
}
