//! F6 (C08): drop into columnar/tests/ ; `cargo test --offline -p tantivy-columnar --test demo_columnar`
use tantivy_columnar::column_values::{serialize_and_load_u64_based_column_values, CodecType, ColumnValues};

/// looking documents up by a value range lying entirely below the column minimum must return nothing.
#[test]
fn f6_range_below_column_minimum_matches_nothing() {
    let vals: Vec<u64> = vec![10, 20, 30, 50];
    let col = serialize_and_load_u64_based_column_values::<u64>(&&vals[..], &[CodecType::Bitpacked]);
    let mut hits = Vec::new();
    col.get_row_ids_for_value_range(3..=9, 0..4, &mut hits);
    assert!(hits.is_empty(), "rows {:?} returned for the value range 3..=9 although the smallest value is 10", hits);
}
