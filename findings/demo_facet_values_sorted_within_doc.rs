//! Native check for unit `column_serialize_dispatch` (property C08, "the column returns exactly the values that were added - in
//! insertion order for multi-valued fields"): `send_to_serialize_column_mappable_to_u64` sorts the values of every row when the
//! column was declared with `sort_values_within_row` (`ColumnarWriter::record_column_type(name, Str | Bytes, true)`), which
//! `FastFieldsWriter::from_schema_and_tokenizer_manager` does for `Type::Facet` fields only (src/fastfield/writer.rs).  The facets
//! of one document therefore come back in increasing ordinal order (= lexicographic order of the facet paths), not in insertion
//! order; duplicates are kept.  A multi-valued `str` fast field of the same documents keeps the insertion order.
//! This is the documented intent of the flag ("useful for facets"): recorded as a FACT about the letter of C08, not as a defect.
//! Drop into `tests/` of a copy of the repository: `cargo test --offline --test demo_facet_values_sorted_within_doc -- --nocapture`.
use tantivy::schema::{Facet, FacetOptions, Schema, FAST, STRING};
use tantivy::{Index, IndexWriter, TantivyDocument};

#[test]
fn facet_fast_field_values_come_back_sorted_str_values_in_insertion_order() {
    let mut schema_builder = Schema::builder();
    let f = schema_builder.add_facet_field("f", FacetOptions::default());
    let s = schema_builder.add_text_field("s", STRING | FAST);
    let schema = schema_builder.build();
    let index = Index::create_in_ram(schema);
    let mut writer: IndexWriter = index.writer_with_num_threads(1, 50_000_000).unwrap();
    let inserted = ["/z/last", "/a/first", "/m/mid", "/a/first"];
    let mut doc = TantivyDocument::default();
    for p in inserted {
        doc.add_facet(f, Facet::from(p));
        doc.add_text(s, p);
    }
    writer.add_document(doc).unwrap();
    writer.commit().unwrap();
    let searcher = index.reader().unwrap().searcher();
    let segment_reader = searcher.segment_reader(0);

    let facet_reader = segment_reader.facet_reader("f").unwrap();
    let mut facets_read: Vec<String> = Vec::new();
    for ord in facet_reader.facet_ords(0) {
        let mut facet = Facet::root();
        facet_reader.facet_from_ord(ord, &mut facet).unwrap();
        facets_read.push(facet.to_string());
    }
    println!("facets inserted : {inserted:?}");
    println!("facets read back: {facets_read:?}");

    let str_column = segment_reader.fast_fields().str("s").unwrap().unwrap();
    let mut strs_read: Vec<String> = Vec::new();
    for ord in str_column.term_ords(0) {
        let mut buf = String::new();
        str_column.ord_to_str(ord, &mut buf).unwrap();
        strs_read.push(buf);
    }
    println!("str values read back: {strs_read:?}");

    // the str fast field: insertion order
    assert_eq!(strs_read, inserted);
    // the facet fast field: sorted within the document, duplicates kept
    assert_eq!(facets_read, ["/a/first", "/a/first", "/m/mid", "/z/last"]);
}
