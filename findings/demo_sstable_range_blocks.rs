//! C15 candidate findings of unit sstable_range_blocks: drop into sstable/tests/ ;
//! `cargo test --offline -p tantivy-sstable --test demo_sstable_range_blocks`
use tantivy_sstable::{Dictionary, MonotonicU64SSTable};

fn build(n: u64) -> Dictionary<MonotonicU64SSTable> {
    let mut builder = Dictionary::<MonotonicU64SSTable>::builder(Vec::new()).unwrap();
    builder.set_block_len(64); // many small blocks (same code path as the 4000-byte default with more keys)
    for i in 0..n {
        builder.insert(format!("{i:08}").as_bytes(), &i).unwrap();
    }
    let bytes = builder.finish().unwrap();
    Dictionary::<MonotonicU64SSTable>::from_bytes(common::OwnedBytes::new(bytes)).unwrap()
}

/// an inverted range (lower bound above the upper bound) is an EMPTY range of a sorted map, not a panic
#[test]
fn inverted_range_across_blocks_is_empty() {
    let dict = build(2000);
    let r = std::panic::catch_unwind(std::panic::AssertUnwindSafe(|| {
        let mut stream = dict.range().ge(b"00001500").lt(b"00000100").into_stream().unwrap();
        let mut n = 0;
        while stream.advance() { n += 1; }
        n
    }));
    assert_eq!(r.ok(), Some(0), "inverted range: expected an empty stream");
}

/// limit(u64::MAX) means "no limit": every entry >= the lower bound must be returned
#[test]
fn huge_limit_returns_all_entries() {
    let dict = build(2000);
    let r = std::panic::catch_unwind(std::panic::AssertUnwindSafe(|| {
        let mut stream = dict.range().ge(b"00000100").limit(u64::MAX).into_stream().unwrap();
        let mut n = 0u64;
        while stream.advance() { n += 1; }
        n
    }));
    assert_eq!(r.ok(), Some(1900), "limit(u64::MAX): expected the 1900 entries >= 00000100");
}
