//! C15 candidate findings of unit sstable_range_blocks: drop into sstable/tests/ ;
//! `cargo test --offline -p tantivy-sstable --test demo_sstable_range_blocks`
//!
//! STATUS: both defects REPAIRED in /repo; on the repaired tree this file passes 2/2.
//! - inverted_range_across_blocks_is_empty: before the fix `FileSlice::slice` panicked `assertion failed: end >= start`
//!   (common/src/file_slice.rs:175, debug and release); repaired by commit "fix: sstable range with an upper bound below the
//!   lower bound panicked" (file_slice_for_range returns FileSlice::empty() when last_block_id < first_block_id).
//! - huge_limit_returns_all_entries: before the fix `block_addr.first_ordinal + limit` overflowed (debug: panic `attempt to add
//!   with overflow` at sstable/src/dictionary.rs:220; release: 11 of 1900 entries returned); repaired by commit "fix: sstable
//!   range with a huge limit overflowed the ordinal limit" (saturating_add).
//! Unit sstable_range_blocks now proves the contract (no under-approximation, panic freedom) for ALL bound pairs and ALL limits;
//! its mutants revert_guard_removed / revert_limit_unchecked_add re-introduce the two defects and are caught.
use tantivy_sstable::{Dictionary, MonotonicU64SSTable};

fn build(n: u64) -> Dictionary<MonotonicU64SSTable> {
    let mut builder = Dictionary::<MonotonicU64SSTable>::builder(Vec::new()).unwrap();
    builder.set_block_len(64); // many small blocks (same code path as the 4000-byte default with more keys)
    for i in 0..n {
        builder.insert(format!("{i:08}").as_bytes(), &i).unwrap();
    }
    let bytes = builder.finish().unwrap();
    Dictionary::<MonotonicU64SSTable>::from_bytes(common::OwnedBytes::new(bytes)).unwrap()
}

/// an inverted range (lower bound above the upper bound) is an EMPTY range of a sorted map, not a panic
#[test]
fn inverted_range_across_blocks_is_empty() {
    let dict = build(2000);
    let r = std::panic::catch_unwind(std::panic::AssertUnwindSafe(|| {
        let mut stream = dict.range().ge(b"00001500").lt(b"00000100").into_stream().unwrap();
        let mut n = 0;
        while stream.advance() { n += 1; }
        n
    }));
    assert_eq!(r.ok(), Some(0), "inverted range: expected an empty stream");
}

/// limit(u64::MAX) means "no limit": every entry >= the lower bound must be returned
#[test]
fn huge_limit_returns_all_entries() {
    let dict = build(2000);
    let r = std::panic::catch_unwind(std::panic::AssertUnwindSafe(|| {
        let mut stream = dict.range().ge(b"00000100").limit(u64::MAX).into_stream().unwrap();
        let mut n = 0u64;
        while stream.advance() { n += 1; }
        n
    }));
    assert_eq!(r.ok(), Some(1900), "limit(u64::MAX): expected the 1900 entries >= 00000100");
}
