// STATUS: tests (A) and (B) REPAIRED in /repo by the commit "fix: fetch_block read the values of the wrong docs for unsorted or repeated doc blocks"
// (`is_contiguous` now also checks `last >= first` and that every step is +1; the debug_assert is gone).  On the repaired tree main ran
// (A) and (B): 2/2 pass in debug and release; the text and recorded runs for (A)/(B) describe the tree BEFORE the repair.
// Regression guards: Verus unit block_accessor (is_contiguous is a run test for ANY block; fetch_block on a Full column proved for any block),
// mutant specs/mutants/block_accessor/is_contiguous_endpoints_only.patch (= the revert).
// Test (C) (the residual: out-of-order blocks reaching a sub-aggregation with a `missing` parameter on a non-full column) REPAIRED in /repo
// by the commit "fix: fetch_block_with_missing appended the missing docs after the docs with values": the missing docs are now merged
// into the docs with values (in place, from the end), so the (doc, value) pairs stay sorted by doc and a terms bucket hands ascending
// docs to its sub-aggregations.  On the tree with both repairs main ran the demo: 3/3 ok.  The recorded FAILED run of (C) at the end of
// this file is from the tree with only the first repair.
// Regression guards for (C): Verus unit block_accessor (fetch_block_with_missing: pairs == [(d, v) for d in docs, for v in (values(d) or
// [missing])], cache sorted by doc), mutants specs/mutants/block_accessor/merge_*.patch.
//
// Candidate finding F-blockacc-unsorted-block (C14 / C08, Verus unit block_accessor):
// "For any aggregation request (... terms with ... missing, ... histogram ..., nested sub-aggregations), the result over the documents
// matching a query equals the result computed directly from those documents' field values."
//
// columnar/src/block_accessor.rs `ColumnBlockAccessor::fetch_block_with_is_full`, Full-column fast path:
//
//     if is_contiguous(docs) { accessor.values.get_range(docs[0] as u64, &mut self.val_cache); } else { ..get_vals(docs, ..) }
//     fn is_contiguous(docs) = (last - first) as usize + 1 == docs.len()        // "docs is always sorted ascending and free of duplicates here"
//
// The unit proves fetch_block correct under the precondition "block strictly ascending" -- and that precondition is NOT met by
// the blocks that bucket aggregations hand to their sub-aggregations (BufferedSubAggs: per-bucket doc lists in PUSH order):
//   (A) terms aggregation with `missing` on a numeric column: fetch_block_with_missing appends the docs WITHOUT value after the docs
//       with values, so when the configured missing value equals a value that occurs, that bucket receives e.g. docs [0, 3, 2];
//   (B) histogram / range aggregation over a MULTI-VALUED column: a document with two values in the same bucket is pushed twice,
//       the bucket receives e.g. docs [0, 0, 2].
// In both cases last - first + 1 == len, the block is taken for the run first..=last, and a metric sub-aggregation on a Full column
// reads the values of docs 0,1,2 -- including doc 1, which is NOT in the bucket:
//   release builds: silently wrong sum / avg / min / max / stats (numbers below);
//   debug builds:   the debug_assert in is_contiguous fires: panic "fetch_block requires docs sorted ascending without duplicates"
//                   inside Searcher::search, for a valid request.
// (Out-of-order blocks also violate the precondition of find_missing_docs, a merge of two sorted lists: test (C); and before the
// repair [3, 1]-shaped blocks underflowed `last - first`.)
//
// Ordinary integration test, public API only: copy into tests/ of a copy of the tree,
//   cargo test --offline --test demo_block_accessor_unsorted_block -- --test-threads 1 --nocapture
//   cargo test --release --offline --test demo_block_accessor_unsorted_block -- --test-threads 1 --nocapture
// Recorded runs: see the end of this file.
use serde_json::Value;
use tantivy::aggregation::agg_req::Aggregations;
use tantivy::aggregation::AggregationCollector;
use tantivy::query::AllQuery;
use tantivy::schema::{Schema, FAST};
use tantivy::{Index, IndexWriter, TantivyDocument};

fn run(index: &Index, req: &str) -> Result<Value, String> {
    let agg_req: Aggregations = serde_json::from_str(req).unwrap();
    let collector = AggregationCollector::from_aggs(agg_req, Default::default());
    let searcher = index.reader().unwrap().searcher();
    assert_eq!(searcher.segment_readers().len(), 1);
    let res = std::panic::catch_unwind(std::panic::AssertUnwindSafe(|| searcher.search(&AllQuery, &collector)));
    match res {
        Ok(Ok(r)) => Ok(serde_json::to_value(r).unwrap()),
        Ok(Err(e)) => Err(format!("error: {e}")),
        Err(p) => Err(format!(
            "PANIC: {}",
            p.downcast_ref::<String>().cloned().or_else(|| p.downcast_ref::<&str>().map(|s| s.to_string())).unwrap_or_default()
        )),
    }
}

// (A) doc0 cat=1 val=1 | doc1 cat=2 val=10 | doc2 (no cat) val=100 | doc3 cat=1 val=1000 ; terms(cat, missing: 1) / sum(val)
#[test]
fn terms_missing_equal_to_existing_value_with_sum_sub_agg() {
    let mut schema_builder = Schema::builder();
    let cat = schema_builder.add_u64_field("cat", FAST);
    let val = schema_builder.add_u64_field("val", FAST);
    let index = Index::create_in_ram(schema_builder.build());
    let mut writer: IndexWriter = index.writer_with_num_threads(1, 20_000_000).unwrap();
    for (c, v) in [(Some(1u64), 1u64), (Some(2), 10), (None, 100), (Some(1), 1000)] {
        let mut doc = TantivyDocument::default();
        if let Some(c) = c {
            doc.add_u64(cat, c);
        }
        doc.add_u64(val, v);
        writer.add_document(doc).unwrap();
    }
    writer.commit().unwrap();
    let res = run(
        &index,
        r#"{ "by_cat": { "terms": { "field": "cat", "missing": 1 }, "aggs": { "s": { "sum": { "field": "val" } } } } }"#,
    );
    println!("(A) terms(cat, missing=1)/sum(val): {res:?}");
    let res = res.expect("valid request must not fail");
    let buckets = res["by_cat"]["buckets"].as_array().unwrap();
    let b1 = buckets.iter().find(|b| b["key"].as_f64() == Some(1.0)).unwrap();
    // bucket 1 = docs {0, 3} (cat = 1) and doc 2 (missing -> 1): 1 + 1000 + 100
    assert_eq!(b1["doc_count"].as_u64(), Some(3));
    assert_eq!(b1["s"]["value"].as_f64(), Some(1101.0), "sum over docs 0,3,2 of bucket 1");
}

// (B) doc0 mv=[1,2] val=1 | doc1 mv=[50] val=10 | doc2 mv=[3] val=100 ; histogram(mv, interval 10) / sum(val)
#[test]
fn histogram_on_multivalued_column_with_sum_sub_agg() {
    let mut schema_builder = Schema::builder();
    let mv = schema_builder.add_u64_field("mv", FAST);
    let val = schema_builder.add_u64_field("val", FAST);
    let index = Index::create_in_ram(schema_builder.build());
    let mut writer: IndexWriter = index.writer_with_num_threads(1, 20_000_000).unwrap();
    for (ms, v) in [(vec![1u64, 2], 1u64), (vec![50], 10), (vec![3], 100)] {
        let mut doc = TantivyDocument::default();
        for m in ms {
            doc.add_u64(mv, m);
        }
        doc.add_u64(val, v);
        writer.add_document(doc).unwrap();
    }
    writer.commit().unwrap();
    let res = run(
        &index,
        r#"{ "h": { "histogram": { "field": "mv", "interval": 10 }, "aggs": { "s": { "sum": { "field": "val" } } } } }"#,
    );
    println!("(B) histogram(mv, 10)/sum(val): {res:?}");
    let res = res.expect("valid request must not fail");
    let buckets = res["h"]["buckets"].as_array().unwrap();
    let b0 = buckets.iter().find(|b| b["key"].as_f64() == Some(0.0)).unwrap();
    let s = b0["s"]["value"].as_f64().unwrap();
    // bucket [0,10) holds docs 0 and 2 only: the sum is 101 (each doc once) or 102 (doc 0 once per value); doc 1 (val 10) is not in it
    assert!(s == 101.0 || s == 102.0, "sum of bucket [0,10) is {s}: includes val=10 of doc 1, which is in bucket 50");
}

// (C) (was the RESIDUAL after the first repair; text below describes the tree before the second repair)  doc0 cat=1 opt=10 | doc1 cat=2 opt=1000 | doc2 (no cat) opt=20 | doc3 cat=1 (no opt) ; terms(cat, missing: 1) / sum(opt, missing: 5)
// bucket 1 receives the block [0, 3, 2] (missing doc 2 appended after doc 3).  fetch_block_with_missing on the Optional column `opt`:
// docid_cache = [0, 2]; find_missing_docs(docs = [0, 3, 2], hits = [0, 2]): 0 == 0; 3 > 2 -> hits exhausted; then 3 AND 2 are reported
// missing: doc 2 contributes its value 20 and the missing value 5.
#[test]
fn residual_missing_scan_on_out_of_order_block() {
    let mut schema_builder = Schema::builder();
    let cat = schema_builder.add_u64_field("cat", FAST);
    let opt = schema_builder.add_u64_field("opt", FAST);
    let index = Index::create_in_ram(schema_builder.build());
    let mut writer: IndexWriter = index.writer_with_num_threads(1, 20_000_000).unwrap();
    for (c, o) in [(Some(1u64), Some(10u64)), (Some(2), Some(1000)), (None, Some(20)), (Some(1), None)] {
        let mut doc = TantivyDocument::default();
        if let Some(c) = c {
            doc.add_u64(cat, c);
        }
        if let Some(o) = o {
            doc.add_u64(opt, o);
        }
        writer.add_document(doc).unwrap();
    }
    writer.commit().unwrap();
    let res = run(
        &index,
        r#"{ "by_cat": { "terms": { "field": "cat", "missing": 1 }, "aggs": { "s": { "sum": { "field": "opt", "missing": 5 } } } } }"#,
    );
    println!("(C) terms(cat, missing=1)/sum(opt, missing=5): {res:?}");
    let res = res.expect("valid request must not fail");
    let buckets = res["by_cat"]["buckets"].as_array().unwrap();
    let b1 = buckets.iter().find(|b| b["key"].as_f64() == Some(1.0)).unwrap();
    assert_eq!(b1["doc_count"].as_u64(), Some(3));
    // bucket 1 = docs 0 (opt 10), 2 (opt 20), 3 (no opt -> 5)
    assert_eq!(b1["s"]["value"].as_f64(), Some(35.0), "10 + 20 + 5");
}

// Recorded runs (2026-09-26, scratch copy of /repo at d32e9bf-era tree, this sandbox):
//   debug   (cargo test --offline --test demo_block_accessor_unsorted_block): 0 passed; 2 failed
//     (A) Err("PANIC: fetch_block requires docs sorted ascending without duplicates")
//     (B) Err("PANIC: fetch_block requires docs sorted ascending without duplicates")
//   release (cargo test --release ...): 0 passed; 2 failed
//     (A) by_cat bucket key 1: doc_count 3, s.value 111.0   (expected 1101.0 = 1 + 1000 + 100; 111 = vals of docs 0,1,2)
//     (B) h bucket key 0.0:   doc_count 3, s.value 111.0   (expected 101 or 102; 111 = vals of docs 0,1,2, doc 1 belongs to bucket 50)
//
// Recorded run on the tree with ONLY THE FIRST repair (2026-09-26, scratch copy of /repo after the first fix commit, debug build):
//   (A) ok (bucket 1 sum 1101.0)   (B) ok (bucket 0 sum 102.0)
//   (C) FAILED: by_cat bucket key 1: doc_count 3, s.value 40.0   (expected 35.0 = 10 + 20 + 5; doc 2 counted with its value 20 AND the missing value 5)
