//! Native demonstration for unit `column_writer_record` (property C08, "fast fields return exactly the values that were indexed ...
//! bytes, strings"): `StrOrBytesColumnWriter::record_bytes` hands the value to `DictionaryBuilder::get_or_allocate_id`, whose
//! `stacker::SharedArenaHashMap::mutate_or_create` CUTS the key at u16::MAX bytes.  A bytes / str fast-field value longer than 65535
//! bytes is therefore stored cut, and two values that agree on their first 65535 bytes share one dictionary entry.
//! Drop into `tests/` of a copy of the repository: `cargo test --offline --test demo_fast_bytes_value_truncated -- --nocapture`.
use tantivy::schema::{Schema, FAST};
use tantivy::{Index, IndexWriter, TantivyDocument};

fn index_and_read_back(values: &[Vec<u8>]) -> Vec<Vec<u8>> {
    let mut schema_builder = Schema::builder();
    let b = schema_builder.add_bytes_field("b", FAST);
    let schema = schema_builder.build();
    let index = Index::create_in_ram(schema);
    let mut writer: IndexWriter = index.writer_with_num_threads(1, 50_000_000).unwrap();
    for v in values {
        let mut doc = TantivyDocument::default();
        doc.add_bytes(b, v);
        writer.add_document(doc).unwrap();
    }
    writer.commit().unwrap();
    let reader = index.reader().unwrap();
    let searcher = reader.searcher();
    assert_eq!(searcher.segment_readers().len(), 1);
    let segment_reader = searcher.segment_reader(0);
    let column = segment_reader.fast_fields().bytes("b").unwrap().unwrap();
    let mut out = Vec::new();
    for doc in 0..segment_reader.max_doc() {
        let ords: Vec<u64> = column.term_ords(doc).collect();
        assert_eq!(ords.len(), 1);
        let mut buf = Vec::new();
        assert!(column.ord_to_bytes(ords[0], &mut buf).unwrap());
        out.push(buf);
    }
    out
}

#[test]
fn value_of_65535_bytes_comes_back() {
    let v: Vec<u8> = (0..65535usize).map(|i| (i % 251) as u8).collect();
    let back = index_and_read_back(&[v.clone()]);
    assert_eq!(back[0].len(), 65535);
    assert!(back[0] == v);
}

#[test]
fn value_of_65536_bytes_is_cut() {
    let v: Vec<u8> = (0..65536usize).map(|i| (i % 251) as u8).collect();
    let back = index_and_read_back(&[v.clone()]);
    println!("indexed {} bytes, fast field returns {} bytes", v.len(), back[0].len());
    assert!(back[0] == v, "indexed {} bytes, the fast field returns {} bytes", v.len(), back[0].len());
}

#[test]
fn two_long_values_with_a_common_prefix_collide() {
    let mut v1: Vec<u8> = (0..70000usize).map(|i| (i % 251) as u8).collect();
    let mut v2 = v1.clone();
    *v1.last_mut().unwrap() = 1;
    *v2.last_mut().unwrap() = 2;
    let back = index_and_read_back(&[v1.clone(), v2.clone()]);
    println!("doc0: {} bytes, doc1: {} bytes, equal: {}", back[0].len(), back[1].len(), back[0] == back[1]);
    assert!(back[0] != back[1], "two different values come back as the same value");
}
